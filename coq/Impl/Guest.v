(* src/guest_memory.rs: provided methods of GuestMemoryRegion (lines 174-212) and GuestMemory
   (457-584), the blanket impl Bytes<GuestAddress> for T: GuestMemory (587-718), and the
   region-level Bytes<MemoryRegionAddress> of GuestRegionMmap (src/mmap/mod.rs:171-317), which
   delegates to the region-wide VolatileSlice (src/volatile_memory.rs:681-850) and is modelled
   directly as whole-region byte-list operations (offset, min(len, cap)).
   Every function is a transcription of the code AS IT IS NOW (incl. fix d46e2c0: empty
   buffer => Ok(0), and fix 80d2d75: try_access stops with Ok(total) when cur wraps to 0).

   A collection is seen by the provided methods only through `find_region`, `iter`, and each
   region's `start_addr`/`len`; the GuestMemory defaults are therefore defined in a Section over
   an abstract `find : layout -> N -> option nat` (index of the region find_region returns), where
   a layout is the list of (start_addr, len) in collection order.  Regions never change start or
   length, so `find` is a function of the layout alone. *)
From VM Require Import Prelude.MachInt Prelude.Outcome Impl.Address.

Definition layout := list (N * N).          (* (start_addr, len) of each region *)
Definition dreg : N * N := (0, 0).

(* guest_memory.rs:58-86  enum Error (payloads kept only where a property names them) *)
Inductive gerr :=
  | EInvalidGuestAddress | EIOError | EPartialBuffer (expected completed : N)
  | EInvalidBackendAddress | EHostAddressNotAvailable | ECallbackOutOfRange | EGuestAddressOverflow.
Definition res (A : Type) : Type := sum A gerr.
(* canonical class number of an error on the wire *)
Definition err_code (e : gerr) : N :=
  match e with
  | EInvalidGuestAddress => 1 | EIOError => 2 | EPartialBuffer _ _ => 3 | EInvalidBackendAddress => 4
  | EHostAddressNotAvailable => 5 | ECallbackOutOfRange => 6 | EGuestAddressOverflow => 7 end.

(* ------------------------------------------------------------------------------------------
   GuestMemoryRegion provided methods *)
(* :174  fn last_addr(&self) { self.start_addr().unchecked_add(self.len() - 1) } *)
Definition r_last_addr (m : mode) (st ln : N) : outcome N :=
  let* l1 := psub m 176 ln 1 in a_unchecked_add m st l1.
(* :192  fn address_in_range(&self, addr) -> bool { addr.raw_value() < self.len() } *)
Definition r_address_in_range (ln a : N) : bool := a <? ln.
(* :183  fn check_address(&self, addr) { if self.address_in_range(addr) { Some(addr) } else { None } } *)
Definition r_check_address (ln a : N) : option N := if r_address_in_range ln a then Some a else None.
(* :197  fn checked_offset(&self, base, offset) { base.checked_add(offset as u64).and_then(|addr| self.check_address(addr)) } *)
Definition r_checked_offset (ln base off : N) : option N :=
  match a_checked_add base off with Some a => r_check_address ln a | None => None end.
(* :209  fn to_region_addr(&self, addr) { addr.checked_offset_from(self.start_addr())
                                            .and_then(|offset| self.check_address(MemoryRegionAddress(offset))) } *)
Definition r_to_region_addr (st ln a : N) : option N :=
  match a_checked_offset_from a st with Some o => r_check_address ln o | None => None end.

(* mmap/mod.rs:334  GuestRegionMmap::get_host_address: check_address(addr).ok_or(InvalidBackendAddress)
                     .map(|addr| mapping.as_ptr().wrapping_offset(addr))  -- result = offset from the region's base *)
Definition reg_get_host_address (ln off : N) : res N :=
  match r_check_address ln off with Some a => inl a | None => inr EInvalidBackendAddress end.
(* mmap/mod.rs:348 get_slice -> mmap/unix.rs:402 MmapRegion::get_slice -> volatile_memory.rs:291
   compute_end_offset(offset, count): checked_add else Overflow; mem_end > len => OutOfBounds;
   both errors become InvalidBackendAddress (guest_memory.rs:87-104).  Ok = (offset, count). *)
Definition reg_get_slice (ln off count : N) : res (N * N) :=
  match checked_add off count with
  | None => inr EInvalidBackendAddress
  | Some mem_end => if ln <? mem_end then inr EInvalidBackendAddress else inl (off, count)
  end.

(* ------------------------------------------------------------------------------------------
   GuestMemory provided methods *)
Section Defaults.
Variable find : layout -> N -> option nat.     (* fn find_region(&self, addr) -> Option<&R> *)

Definition gm_num_regions (L : layout) : N := N.of_nat (length L).
Definition gm_iter (L : layout) : layout := L.

(* :457 fn last_addr(&self) { self.iter().map(GuestMemoryRegion::last_addr).fold(GuestAddress(0), std::cmp::max) } *)
Fixpoint gm_last_addr_loop (m : mode) (L : layout) (acc : N) {struct L} : outcome N :=
  match L with
  | [] => Val acc
  | (st, ln) :: t => let* la := r_last_addr m st ln in gm_last_addr_loop m t (N.max acc la)
  end.
Definition gm_last_addr (m : mode) (L : layout) : outcome N := gm_last_addr_loop m L 0.

(* :466 fn to_region_addr(&self, addr) { self.find_region(addr).map(|r| (r, r.to_region_addr(addr).unwrap())) } *)
Definition gm_to_region_addr (L : layout) (a : N) : outcome (option (nat * N)) :=
  match find L a with
  | None => Val None
  | Some i =>
      match r_to_region_addr (fst (nth i L dreg)) (snd (nth i L dreg)) a with
      | Some o => Val (Some (i, o))
      | None => Panic 468                               (* unwrap on None *)
      end
  end.
(* :472 fn address_in_range(&self, addr) -> bool { self.find_region(addr).is_some() } *)
Definition gm_address_in_range (L : layout) (a : N) : bool :=
  match find L a with Some _ => true | None => false end.
(* :477 fn check_address(&self, addr) { self.find_region(addr).map(|_| addr) } *)
Definition gm_check_address (L : layout) (a : N) : option N :=
  match find L a with Some _ => Some a | None => None end.
(* :490 fn checked_offset(&self, base, offset) { base.checked_add(offset as u64).and_then(|addr| self.check_address(addr)) } *)
Definition gm_checked_offset (L : layout) (base off : N) : option N :=
  match a_checked_add base off with Some a => gm_check_address L a | None => None end.

(* :504-544 fn try_access<F>(&self, count, addr, mut f: F) -> Result<usize>
     let mut cur = addr; let mut total = 0;
     while let Some(region) = self.find_region(cur) {
         let start = region.to_region_addr(cur).unwrap();
         let cap = region.len() - start.raw_value();
         let len = std::cmp::min(cap, (count - total) as GuestUsize);
         match f(total, len as usize, start, region) {
             Ok(0) => return Ok(total),
             Ok(len) => {
                 total = match total.checked_add(len) {
                     Some(x) if x < count => x,
                     Some(x) if x == count => return Ok(x),
                     _ => return Err(Error::CallbackOutOfRange) };
                 cur = match cur.overflowing_add(len as GuestUsize) {
                     (x, false) => x,
                     (GuestAddress(0), true) => return Ok(total),
                     (_, true) => return Err(Error::GuestAddressOverflow) };
             }
             e => return e,
         }
     }
     if total == 0 { Err(Error::InvalidGuestAddress(addr)) } else { Ok(total) }
   The FnMut closure may mutate captured state: the callback threads a state of type St.
   The `while` loop is structural recursion over fuel. *)
Section TryAccess.
Context {St : Type}.
Variable m : mode.
Variable L : layout.
Variable count : N.
Variable f : St -> N -> N -> N -> nat -> outcome (St * res N).   (* state, offset(total), len, region addr, region *)

Fixpoint try_access (fuel : nat) (s : St) (cur total : N) {struct fuel} : outcome (St * res N) :=
  match fuel with
  | O => OutOfFuel
  | S fu =>
    match find L cur with
    | None => Val (s, if total =? 0 then inr EInvalidGuestAddress else inl total)       (* :540-544 *)
    | Some i =>
      let st := fst (nth i L dreg) in let ln := snd (nth i L dreg) in
      match r_to_region_addr st ln cur with
      | None => Panic 513                                                              (* unwrap *)
      | Some start =>
        let* cap := psub m 514 ln start in
        let* rem := psub m 515 count total in
        let len := N.min cap rem in
        let* sr := f s total len start i in
        let s' := fst sr in
        match snd sr with
        | inr e => Val (s', inr e)                                                     (* e => return e *)
        | inl n =>
          if n =? 0 then Val (s', inl total)                                           (* Ok(0) *)
          else
            match checked_add total n with
            | None => Val (s', inr ECallbackOutOfRange)
            | Some x =>
              if x <? count then
                let cw := a_overflowing_add cur n in
                if negb (snd cw) then try_access fu s' (fst cw) x                      (* (x, false) *)
                else if fst cw =? 0 then Val (s', inl x)                               (* (GuestAddress(0), true) *)
                else Val (s', inr EGuestAddressOverflow)                               (* (_, true) *)
              else if x =? count then Val (s', inl x)
              else Val (s', inr ECallbackOutOfRange)
            end
        end
      end
    end
  end.
End TryAccess.

(* :482 fn check_range(&self, base, len) -> bool {
     match self.try_access(len, base, |_, count, _, _| -> Result<usize> { Ok(count) }) {
         Ok(count) => count == len, _ => false } } *)
Definition gm_check_range (m : mode) (L : layout) (base len : N) : outcome bool :=
  let* sr := try_access m L len (fun (s : unit) _ cnt _ _ => Val (s, inl cnt)) (S (length L)) tt base 0 in
  Val (match snd sr with inl c => c =? len | inr _ => false end).

(* :572 fn get_host_address(&self, addr) { self.to_region_addr(addr).ok_or(InvalidGuestAddress(addr))
                                           .and_then(|(r, addr)| r.get_host_address(addr)) }
   result: (region index, offset of the pointer from that region's host base) *)
Definition gm_get_host_address (L : layout) (a : N) : outcome (res (nat * N)) :=
  let* o := gm_to_region_addr L a in
  Val (match o with
       | None => inr EInvalidGuestAddress
       | Some (i, off) =>
           match reg_get_host_address (snd (nth i L dreg)) off with
           | inl p => inl (i, p) | inr e => inr e end
       end).
(* :580 fn get_slice(&self, addr, count) { self.to_region_addr(addr).ok_or(InvalidGuestAddress(addr))
                                           .and_then(|(r, addr)| r.get_slice(addr, count)) }
   result: (region index, offset of the slice from the region's host base, slice length) *)
Definition gm_get_slice (L : layout) (a count : N) : outcome (res (nat * N * N)) :=
  let* o := gm_to_region_addr L a in
  Val (match o with
       | None => inr EInvalidGuestAddress
       | Some (i, off) =>
           match reg_get_slice (snd (nth i L dreg)) off count with
           | inl (p, c) => inl (i, p, c) | inr e => inr e end
       end).
End Defaults.

(* ------------------------------------------------------------------------------------------
   Guest bytes: one byte list per region *)
Record region := { rstart : N; rbytes : list N }.
Definition lenN {A} (l : list A) : N := N.of_nat (length l).
Definition rlen (r : region) : N := lenN (rbytes r).
Definition mem := list region.
Definition shape (M : mem) : layout := map (fun r => (rstart r, rlen r)) M.
Definition dummy : region := {| rstart := 0; rbytes := [] |}.

(* dst[..min(len)] = src[..min(len)] *)
Fixpoint overwrite (l src : list N) {struct l} : list N :=
  match l, src with x :: t, s :: u => s :: overwrite t u | _, _ => l end.
(* l[o..][..min] = src[..min]  (lengths never change) *)
Fixpoint write_at (l : list N) (o : nat) (src : list N) {struct o} : list N :=
  match o, l with
  | O, _ => overwrite l src
  | S o', x :: t => x :: write_at t o' src
  | S _, [] => []
  end.
Fixpoint upd_nth (M : mem) (i : nat) (r : region) {struct M} : mem :=
  match M, i with [], _ => [] | _ :: t, O => r :: t | x :: t, S j => x :: upd_nth t j r end.
Definition set_bytes (r : region) (b : list N) : region := {| rstart := rstart r; rbytes := b |}.

(* mmap/mod.rs:188 GuestRegionMmap::write -> volatile_memory.rs:697 VolatileSlice::write
     if buf.is_empty() { return Ok(0) }
     if addr >= self.size { return Err(OutOfBounds) }          -> InvalidBackendAddress
     buf.read_volatile(&mut self.offset(addr)?)                 io.rs:268: total = min(slice.len, buf.len) *)
Definition reg_write (r : region) (src : list N) (off : N) : region * res N :=
  match src with
  | [] => (r, inl 0)
  | _ :: _ =>
      if rlen r <=? off then (r, inr EInvalidBackendAddress)
      else let n := N.min (rlen r - off) (lenN src) in
           (set_bytes r (write_at (rbytes r) (N.to_nat off) (firstn (N.to_nat n) src)), inl n)
  end.
(* mmap/mod.rs:210 read -> volatile_memory.rs:726 VolatileSlice::read (dlen = length of the destination) *)
Definition reg_read (r : region) (dlen off : N) : res (list N) :=
  if dlen =? 0 then inl []
  else if rlen r <=? off then inr EInvalidBackendAddress
  else inl (firstn (N.to_nat (N.min (rlen r - off) dlen)) (skipn (N.to_nat off) (rbytes r))).

(* mmap/mod.rs:299 store -> volatile_memory.rs:833 -> get_atomic_ref (:260): get_slice(offset, size_of::<T>())?;
   check_alignment(align_of::<T>())? on the HOST address.  Model assumption (established by the
   harness, true of mmap): every region's host base is at least 8-byte aligned, and
   align_of = size_of for the AtomicAccess integer types (x86-64).  `bytes` = the value, little endian. *)
Definition reg_store (r : region) (bytes : list N) (off : N) : region * res unit :=
  let sz := lenN bytes in
  match reg_get_slice (rlen r) off sz with
  | inr e => (r, inr e)
  | inl _ =>
      if off mod sz =? 0 then (set_bytes r (write_at (rbytes r) (N.to_nat off) bytes), inl tt)
      else (r, inr EInvalidBackendAddress)                                              (* Misaligned *)
  end.
Definition reg_load (r : region) (sz off : N) : res (list N) :=
  match reg_get_slice (rlen r) off sz with
  | inr e => inr e
  | inl _ =>
      if off mod sz =? 0 then inl (firstn (N.to_nat sz) (skipn (N.to_nat off) (rbytes r)))
      else inr EInvalidBackendAddress
  end.

(* mmap/mod.rs:236 read_volatile_from -> volatile_memory.rs:808:
     let slice = self.offset(addr)?;  (size.checked_sub(addr) else OutOfBounds)
     let mut slice = slice.subslice(0, slice.len().min(count)).unwrap();
     retry_eintr!(src.read_volatile(&mut slice))
   The source is an in-memory byte stream that hands out at most `chunk` bytes per read_volatile
   call: src: &[u8] (io.rs:268: total = min(slice.len, src.len); copy; src advances; Ok(total)) is
   chunk = "unbounded" (any chunk >= the request); the harness' ChunkedSrc is the same with a
   finite chunk >= 1 (short reads, as files and sockets produce them). *)
Definition reg_read_volatile_from (r : region) (off : N) (chunk : N) (src : list N) (count : N)
  : region * list N * res N :=
  if rlen r <? off then (r, src, inr EInvalidBackendAddress)
  else let n := N.min (N.min (N.min (rlen r - off) count) chunk) (lenN src) in
       (set_bytes r (write_at (rbytes r) (N.to_nat off) (firstn (N.to_nat n) src)),
        skipn (N.to_nat n) src, inl n).
(* mmap/mod.rs:283 write_all_volatile_to -> volatile_memory.rs:826: dst.write_all_volatile(&self.get_slice(addr, count)?)
   with dst: Vec<u8> (io.rs:309 + default write_all_volatile :102): appends the whole slice *)
Definition reg_write_all_volatile_to (r : region) (off : N) (dst : list N) (count : N)
  : list N * res unit :=
  match reg_get_slice (rlen r) off count with
  | inr e => (dst, inr e)
  | inl _ => (dst ++ firstn (N.to_nat count) (skipn (N.to_nat off) (rbytes r)), inl tt)
  end.

(* ------------------------------------------------------------------------------------------
   impl<T: GuestMemory + ?Sized> Bytes<GuestAddress> for T   (guest_memory.rs:587-718) *)
Section GuestBytes.
Variable find : layout -> N -> option nat.
Variable m : mode.

(* :590 fn write(&self, buf, addr) {
     if buf.is_empty() { return Ok(0); }
     self.try_access(buf.len(), addr, |offset, _count, caddr, region| region.write(&buf[offset..], caddr)) } *)
Definition gm_write (M : mem) (buf : list N) (addr : N) : outcome (mem * res N) :=
  match buf with
  | [] => Val (M, inl 0)
  | _ :: _ =>
    try_access find m (shape M) (lenN buf)
      (fun M' offset _ caddr i =>
         if lenN buf <? offset then Panic 600                                   (* &buf[offset..] *)
         else let wr := reg_write (nth i M' dummy) (skipn (N.to_nat offset) buf) caddr in
              Val (upd_nth M' i (fst wr), snd wr))
      (S (length M)) M addr 0
  end.

(* :605 fn read(&self, buf: &mut [u8], addr): same with region.read(&mut buf[offset..], caddr);
   the state is the caller's buffer (initial contents buf0) *)
Definition gm_read (M : mem) (buf0 : list N) (addr : N) : outcome (list N * res N) :=
  match buf0 with
  | [] => Val (buf0, inl 0)
  | _ :: _ =>
    try_access find m (shape M) (lenN buf0)
      (fun b offset _ caddr i =>
         if lenN b <? offset then Panic 615                                     (* &mut buf[offset..] *)
         else match reg_read (nth i M dummy) (lenN b - offset) caddr with
              | inl bytes => Val (write_at b (N.to_nat offset) bytes, inl (lenN bytes))
              | inr e => Val (b, inr e)
              end)
      (S (length M)) buf0 addr 0
  end.

(* :637 fn write_slice(&self, buf, addr) { let res = self.write(buf, addr)?;
       if res != buf.len() { return Err(PartialBuffer { expected: buf.len(), completed: res }) } Ok(()) } *)
Definition gm_write_slice (M : mem) (buf : list N) (addr : N) : outcome (mem * res unit) :=
  let* wr := gm_write M buf addr in
  Val (fst wr, match snd wr with
               | inr e => inr e
               | inl n => if n =? lenN buf then inl tt else inr (EPartialBuffer (lenN buf) n)
               end).
(* :665 fn read_slice *)
Definition gm_read_slice (M : mem) (buf0 : list N) (addr : N) : outcome (list N * res unit) :=
  let* rd := gm_read M buf0 addr in
  Val (fst rd, match snd rd with
               | inr e => inr e
               | inl n => if n =? lenN buf0 then inl tt else inr (EPartialBuffer (lenN buf0) n)
               end).
(* bytes.rs:299 fn write_obj(&self, val, addr) { self.write_slice(val.as_slice(), addr) } *)
Definition gm_write_obj (M : mem) (val : list N) (addr : N) : outcome (mem * res unit) :=
  gm_write_slice M val addr.
(* bytes.rs:312 fn read_obj(&self, addr) { let mut result = T::zeroed();
                                            self.read_slice(result.as_mut_slice(), addr).map(|_| result) } *)
Definition gm_read_obj (M : mem) (sz : N) (addr : N) : outcome (res (list N)) :=
  let* rd := gm_read_slice M (repeat 0 (N.to_nat sz)) addr in
  Val (match snd rd with inl _ => inl (fst rd) | inr e => inr e end).

(* :703 fn store(&self, val, addr, order) { self.to_region_addr(addr).ok_or(InvalidGuestAddress(addr))
                                             .and_then(|(region, region_addr)| region.store(val, region_addr, order)) } *)
Definition gm_store (M : mem) (bytes : list N) (addr : N) : outcome (mem * res unit) :=
  let* o := gm_to_region_addr find (shape M) addr in
  Val (match o with
       | None => (M, inr EInvalidGuestAddress)
       | Some (i, off) => let sr := reg_store (nth i M dummy) bytes off in (upd_nth M i (fst sr), snd sr)
       end).
(* :711 fn load *)
Definition gm_load (M : mem) (sz addr : N) : outcome (res (list N)) :=
  let* o := gm_to_region_addr find (shape M) addr in
  Val (match o with
       | None => inr EInvalidGuestAddress
       | Some (i, off) => reg_load (nth i M dummy) sz off
       end).

(* :675 fn read_volatile_from(&self, addr, src, count) {
     self.try_access(count, addr, |_, len, caddr, region| region.read_volatile_from(caddr, src, len)) }
   state = (memory, rest of the source).  A source may answer short (less than asked), every
   such answer consumes at least one of its bytes: fuel = regions + source length + 2 *)
Definition gm_read_volatile_from (M : mem) (addr : N) (chunk : N) (src : list N) (count : N)
  : outcome ((mem * list N) * res N) :=
  try_access find m (shape M) count
    (fun ms _ len caddr i =>
       let rr := reg_read_volatile_from (nth i (fst ms) dummy) caddr chunk (snd ms) len in
       Val ((upd_nth (fst ms) i (fst (fst rr)), snd (fst rr)), snd rr))
    (S (S (length M + length src))) (M, src) addr 0.
(* :683 fn read_exact_volatile_from *)
Definition gm_read_exact_volatile_from (M : mem) (addr : N) (chunk : N) (src : list N) (count : N)
  : outcome ((mem * list N) * res unit) :=
  let* r := gm_read_volatile_from M addr chunk src count in
  Val (fst r, match snd r with
              | inr e => inr e
              | inl n => if n =? count then inl tt else inr (EPartialBuffer count n)
              end).
(* :699 fn write_volatile_to(&self, addr, dst, count) {
     self.try_access(count, addr, |_, len, caddr, region| region.write_all_volatile_to(caddr, dst, len).map(|()| len)) }
   with dst: Vec<u8>; state = the sink's contents *)
Definition gm_write_volatile_to (M : mem) (addr : N) (dst : list N) (count : N)
  : outcome (list N * res N) :=
  try_access find m (shape M) count
    (fun d _ len caddr i =>
       let wr := reg_write_all_volatile_to (nth i M dummy) caddr d len in
       Val (fst wr, match snd wr with inl _ => inl len | inr e => inr e end))
    (S (length M)) dst addr 0.
(* :711 fn write_all_volatile_to *)
Definition gm_write_all_volatile_to (M : mem) (addr : N) (dst : list N) (count : N)
  : outcome (list N * res unit) :=
  let* r := gm_write_volatile_to M addr dst count in
  Val (fst r, match snd r with
              | inr e => inr e
              | inl n => if n =? count then inl tt else inr (EPartialBuffer count n)
              end).
End GuestBytes.

(* ------------------------------------------------------------------------------------------
   The linear implementor: find_region = first region (in collection order) that contains the
   address (what the harness' MockMem codes: iter().find(|r| r.to_region_addr(addr).is_some())).
   For a collection of pairwise disjoint regions every correct find_region - in particular the
   binary search of GuestMemoryMmap (src/mmap/mod.rs:499, modelled and proved in Impl/Mmap.v by
   the C10 package) - returns the same region. *)
Definition contains (p : N * N) (a : N) : bool := (fst p <=? a) && (a - fst p <? snd p).
Fixpoint find_idx (L : layout) (a : N) (i : nat) {struct L} : option nat :=
  match L with
  | [] => None
  | p :: t => match r_to_region_addr (fst p) (snd p) a with Some _ => Some i | None => find_idx t a (S i) end
  end.
Definition find_lin (L : layout) (a : N) : option nat := find_idx L a 0.

(* ------------------------------------------------------------------------------------------
   added (w4): the CAPABILITY defaults of GuestMemoryRegion - the provided bodies an implementor
   inherits when it does not write the method itself - and the implementor flavours of suite C02.
   (src/guest_memory.rs, trait GuestMemoryRegion) *)
(* :224 fn get_host_address(&self, _addr: MemoryRegionAddress) -> Result<*mut u8> { Err(Error::HostAddressNotAvailable) } *)
Definition rd_get_host_address (ln off : N) : res N := inr EHostAddressNotAvailable.
(* :229 fn file_offset(&self) -> Option<&FileOffset> { None } *)
Definition rd_file_offset : option N := None.
(* :235 fn get_slice(&self, offset, count) -> Result<VolatileSlice<..>> { Err(Error::HostAddressNotAvailable) } *)
Definition rd_get_slice (ln off count : N) : res (N * N) := inr EHostAddressNotAvailable.
(* :268 fn as_volatile_slice(&self) { self.get_slice(MemoryRegionAddress(0), self.len() as usize) }
   (dispatches to the implementor's get_slice, own or inherited) *)
Definition r_as_volatile_slice (get_slice : N -> N -> N -> res (N * N)) (ln : N) : res (N * N) :=
  get_slice ln 0 ln.

(* An implementor flavour says which of the two capability methods the region type writes itself.
   own = true: its own method - the code GuestRegionMmap has (mmap/mod.rs:334 / :350) and the harness'
   mock regions copy (reg_get_host_address / reg_get_slice above); own = false: the provided body. *)
Definition fl_get_host_address (own : bool) (ln off : N) : res N :=
  if own then reg_get_host_address ln off else rd_get_host_address ln off.
Definition fl_get_slice (own : bool) (ln off count : N) : res (N * N) :=
  if own then reg_get_slice ln off count else rd_get_slice ln off count.
Definition fl_as_volatile_slice (own : bool) (ln : N) : res (N * N) :=
  r_as_volatile_slice (fl_get_slice own) ln.

(* GuestMemory::get_host_address (:572) / get_slice (:580) over a region type of a given flavour:
   the same bodies as gm_get_host_address / gm_get_slice, the region's method being the flavour's *)
Section DefaultsFlavour.
Variable find : layout -> N -> option nat.
Definition gm_get_host_address_fl (own : bool) (L : layout) (a : N) : outcome (res (nat * N)) :=
  let* o := gm_to_region_addr find L a in
  Val (match o with
       | None => inr EInvalidGuestAddress
       | Some (i, off) =>
           match fl_get_host_address own (snd (nth i L dreg)) off with
           | inl p => inl (i, p) | inr e => inr e end
       end).
Definition gm_get_slice_fl (own : bool) (L : layout) (a count : N) : outcome (res (nat * N * N)) :=
  let* o := gm_to_region_addr find L a in
  Val (match o with
       | None => inr EInvalidGuestAddress
       | Some (i, off) =>
           match fl_get_slice own (snd (nth i L dreg)) off count with
           | inl (p, c) => inl (i, p, c) | inr e => inr e end
       end).
End DefaultsFlavour.
