(* Ownership / reference-count machine for the XEN flavour of the mmap backend (feature `xen`).

   Same shape as Impl/Owner.v (the Arc / Vec / snapshot code of src/mmap/mod.rs is shared by both flavours); what
   differs is the object a region owns and what its Drop does (src/mmap/xen.rs):

     MmapRegion { mmap: MmapXen { mmap: Box<dyn MmapXenTrait> } }            xen.rs:154-162, :975-980
       kind 0  MmapXenUnix(MmapUnix)                         :525   drop glue -> Drop for MmapUnix: munmap :425-433
       kind 1  MmapXenForeign { unix_mmap: MmapUnix, .. }    :589   drop glue -> Drop for MmapUnix: munmap
       kind 2  MmapXenGrant { unix_mmap: Some(MmapUnix), index, size, .. }   mapped IN ADVANCE (:827-837)
               Drop for MmapXenGrant :902-908: `if let Some(unix_mmap) = self.unix_mmap.take()` ->
               unmap_range :850-856: drop(unix_mmap) (munmap), then unmap_ioctl(count, index).unwrap()
       kind 3  MmapXenGrant { unix_mmap: None, .. }          GRANT | NO_ADVANCE_MAP: mapped ON DEMAND;
               the region owns no mapping; its Drop does nothing (:904 None)

     y_owned   = the back end holds an MmapUnix (always for kinds 0,1; `unix_mmap.is_some()` for grant)
     y_live    = that mapping is still mapped                     y_unmaps  = munmap calls issued for it
     y_gnt     = the region's own grant mapping is live in the device (kind 2: map ioctl at creation :844)
     y_gunmaps = unmap ioctls issued for it
     y_strong / y_ub as in Owner.v (strong count of the Arc<GuestRegionMmap>, underflow flag)

   Pointer guards (volatile_memory.rs:319-366 PtrGuard::new -> MmapXen::mmap :1022-1032):
     regions mapped in advance hand out slices WITHOUT mmap info (xen.rs:375-379), so every guard is
     MmapXenSlice::raw (:920-928): it owns nothing and its Drop does nothing (:963-972, unix_mmap None);
     on-demand regions hand out slices WITH mmap info: the guard is MmapXenSlice::new_with(self.clone(), ..) :890,
     :930-955 - a window of its own (map ioctl + mmap), released by Drop for MmapXenSlice (unmap_range), and the
     CLONE of the MmapXenGrant it carries has unix_mmap = None, so dropping it does nothing.
   Hence an ACCESS never changes a region record: [yexec (YAccess ..)] returns the state unchanged; the events it
   causes in the device are those of Impl/Xen.v's [run_op] on the region (function [yevs]).

   Layout used by the suite: the region created as number id in slot k covers guest [k*0x10000, +ysize id) and is
   created with MmapRange.addr = ygaddr id k (distinct grant references for distinct regions, so that device
   entries can be attributed); at most 100 regions, slots below 16 (the harness enforces the same limits). *)
From VM Require Import Prelude.MachInt Prelude.Outcome Impl.Owner Impl.MmapBuild Impl.Xen.
From VM Require Spec.C17 Suite.C17.

Record yrec := { y_kind : N; y_slot : N; y_owned : bool; y_strong : nat; y_live : bool; y_unmaps : nat;
                 y_gnt : bool; y_gunmaps : nat; y_ub : bool }.
Definition ydefault : yrec :=
  {| y_kind := 0; y_slot := 0; y_owned := false; y_strong := O; y_live := false; y_unmaps := O;
     y_gnt := false; y_gunmaps := O; y_ub := false |}.

Record ystate := {
  yreg : N -> yrec;
  ynreg : N;                          (* regions 0 .. ynreg-1 were created *)
  ysnaps : list snap;
  yhandles : list (option handle)     (* None = dropped; ids are never reused *)
}.
Definition yinit : ystate := {| yreg := fun _ => ydefault; ynreg := 0; ysnaps := []; yhandles := [] |}.

Definition ywith_strong (x : yrec) (n : nat) : yrec :=
  {| y_kind := y_kind x; y_slot := y_slot x; y_owned := y_owned x; y_strong := n; y_live := y_live x;
     y_unmaps := y_unmaps x; y_gnt := y_gnt x; y_gunmaps := y_gunmaps x; y_ub := y_ub x |}.

(* Arc::clone *)
Definition yclone1 (x : yrec) : yrec := ywith_strong x (S (y_strong x)).
(* drop glue of MmapRegion -> MmapXen -> Box<dyn MmapXenTrait> (see the table above) *)
Definition ydrop_region (x : yrec) : yrec :=
  if y_owned x then                                   (* MmapUnix present: :425-433 / :904 Some *)
    {| y_kind := y_kind x; y_slot := y_slot x; y_owned := y_owned x; y_strong := y_strong x;
       y_live := false; y_unmaps := S (y_unmaps x);                               (* munmap *)
       y_gnt := if y_kind x =? 2 then false else y_gnt x;                          (* :855 unmap_ioctl (grant only) *)
       y_gunmaps := if y_kind x =? 2 then S (y_gunmaps x) else y_gunmaps x;
       y_ub := y_ub x |}
  else x.                                             (* on-demand grant: unix_mmap is None, nothing to do *)
(* drop of one Arc<GuestRegionMmap> *)
Definition ydrop1 (x : yrec) : yrec :=
  match y_strong x with
  | O => {| y_kind := y_kind x; y_slot := y_slot x; y_owned := y_owned x; y_strong := O; y_live := y_live x;
            y_unmaps := y_unmaps x; y_gnt := y_gnt x; y_gunmaps := y_gunmaps x; y_ub := true |}
  | S O => ydrop_region (ywith_strong x O)
  | S n => ywith_strong x n
  end.

Fixpoint yclone_arcs (rs : list N) (f : N -> yrec) {struct rs} : N -> yrec :=
  match rs with [] => f | r :: t => yclone_arcs t (updf f r (yclone1 (f r))) end.
Fixpoint ydrop_arcs (rs : list N) (f : N -> yrec) {struct rs} : N -> yrec :=
  match rs with [] => f | r :: t => ydrop_arcs t (updf f r (ydrop1 (f r))) end.

Definition yget_handle (s : ystate) (i : nat) : option handle :=
  match nth_error (yhandles s) i with Some (Some h) => Some h | _ => None end.

(* ---- layout of the suite's regions *)
Definition ysize (id : N) : N := nth (N.to_nat (id mod 6)) [4096; 2048; 4097; 14336; 8192; 8191] 4096.
Definition ygaddr (id slot : N) : N := (id * 16 + slot) * 65536.
Definition ystart_of (f : N -> yrec) (r : N) : N := y_slot (f r) * 65536.
Definition ylast_of (f : N -> yrec) (r : N) : N := ystart_of f r + PAGE - 1.

(* from_arc_regions, mmap/mod.rs:433-452 (as in Owner.v; the overlap test is abstracted to one page: regions of
   different slots are 0x10000 apart and at most 0x3800 long, regions of the same slot start at the same address) *)
Fixpoint ywindows_ok (f : N -> yrec) (rs : list N) {struct rs} : bool :=
  match rs with
  | prev :: t =>
      match t with
      | next :: _ =>
          if ystart_of f next <? ystart_of f prev then false
          else if ystart_of f next <=? ylast_of f prev then false
          else ywindows_ok f t
      | [] => true end
  | [] => true end.
Definition yfrom_arc_ok (f : N -> yrec) (rs : list N) : bool :=
  match rs with [] => false | _ => ywindows_ok f rs end.
Fixpoint yinsert_sorted (f : N -> yrec) (r : N) (l : list N) {struct l} : list N :=
  match l with
  | [] => [r]
  | x :: t => if ystart_of f r <? ystart_of f x then r :: x :: t else x :: yinsert_sorted f r t
  end.
Fixpoint ysort_by_start (f : N -> yrec) (l : list N) {struct l} : list N :=
  match l with [] => [] | x :: t => yinsert_sorted f x (ysort_by_start f t) end.
Fixpoint yfind_start (f : N -> yrec) (base : N) (rs : list N) {struct rs} : option nat :=
  match rs with
  | [] => None
  | r :: t => if ystart_of f r =? base then Some O
              else match yfind_start f base t with Some i => Some (S i) | None => None end
  end.

(* ---- the Xen objects of a region, built by the transcribed constructor (Impl/Xen.v) as suite C17xen does *)
Definition ycase (m : mode) (kind id slot : N) : Spec.C17.case17x :=
  {| Spec.C17.cx_mode := m; Spec.C17.cx_rkind := kind; Spec.C17.cx_size := ysize id;
     Spec.C17.cx_gbase := ygaddr id slot; Spec.C17.cx_page := 4096; Spec.C17.cx_ops := [] |}.
Definition yos (m : mode) : os := {| os_page := 4096; os_filesize := 0; os_mmap_ok := true; os_ioctl_ok := true |}.
Definition ybuild (m : mode) (kind id slot : N) : outcome (res xregion * list ev) :=
  xen_from_range m (yos m) (Suite.C17.range17 (ycase m kind id slot)).
Definition yxregion (m : mode) (kind id slot : N) : option xregion :=
  match ybuild m kind id slot with Val (Ok g, _) => Some g | _ => None end.

Inductive yop :=
  | YCreate (kind slot : N)               (* kind 0 unix, 1 foreign, 2 grant in advance, 3 grant on demand *)
  | YBuild (hs : list nat)
  | YInsert (hm hr : nat)
  | YRemove (hm : nat) (base size : N)
  | YCloneH (h : nat)
  | YSnap (hm : nat)
  | YDropH (h : nat)
  (* one guarded access through handle h: a region handle (sel = 0: region.write / read / get_slice + ptr_guard at
     MemoryRegionAddress off), or a map / snapshot (GuestMemory::write / read at GuestAddress sel*0x10000 + off);
     ak 0 write, 1 read, 2 ptr_guard over [off,off+len), 3 ptr_guard_mut *)
  | YAccess (h : nat) (sel off len ak : N).

Inductive yresult := YDone (v : list N) | YFailed | YImpossible | YPanicked.

Fixpoint yregion_handles (s : ystate) (hs : list nat) {struct hs} : option (list N) :=
  match hs with
  | [] => Some []
  | h :: t => match yget_handle s h, yregion_handles s t with
              | Some (HRegion r), Some l => Some (r :: l)
              | _, _ => None end
  end.

Definition ypush (s : ystate) (f : N -> yrec) (hs : list handle) : ystate :=
  {| yreg := f; ynreg := ynreg s; ysnaps := ysnaps s; yhandles := yhandles s ++ map Some hs |}.
Definition ywith_reg (s : ystate) (f : N -> yrec) : ystate :=
  {| yreg := f; ynreg := ynreg s; ysnaps := ysnaps s; yhandles := yhandles s |}.

(* the access as an operation of Impl/Xen.v *)
Definition yxop (off len ak : N) : xop :=
  match ak with
  | 0 => XWrite off len | 1 => XRead off len | 2 => XSliceGuard off len false | _ => XSliceGuard off len true end.
(* what the access of region r does: result and device events *)
Definition yaccess1 (m : mode) (s : ystate) (r off len ak : N) : list ev * opres :=
  match yxregion m (y_kind (yreg s r)) r (y_slot (yreg s r)) with
  | Some g => run_op m (yos m) g (yxop off len ak)
  | None => ([], RPanic) end.
Definition yres_of (r : opres) : yresult :=
  match r with RErr => YFailed | RDone _ => YDone [0] | _ => YPanicked end.
(* GuestMemory::write / read (guest_memory.rs: empty buffer -> Ok(0) at any address; try_access: no region at the
   address -> InvalidGuestAddress; else the region's own write / read at the offset inside it).  Regions of a map
   are 0x10000 apart, so an access never continues into a second region. *)
Definition yaccess_map (m : mode) (s : ystate) (rs : list N) (sel off len ak : N) : list ev * yresult :=
  if negb (ak <? 2) then ([], YImpossible)
  else if len =? 0 then ([], YDone [0])
  else match yfind_start (yreg s) (sel * 65536) rs with
       | Some i => let r := nth i rs 0 in
                   if off <? ysize r then let '(l, x) := yaccess1 m s r off len ak in (l, yres_of x)
                   else ([], YFailed)
       | None => ([], YFailed) end.
Definition yaccess (m : mode) (s : ystate) (h : nat) (sel off len ak : N) : list ev * yresult :=
  match yget_handle s h with
  | Some (HRegion r) => if sel =? 0 then let '(l, x) := yaccess1 m s r off len ak in (l, yres_of x)
                        else ([], YImpossible)
  | Some (HMap rs) => yaccess_map m s rs sel off len ak
  | Some (HSnap a) => match nth_error (ysnaps s) a with
                      | Some sn => yaccess_map m s (s_regions sn) sel off len ak
                      | None => ([], YImpossible) end
  | None => ([], YImpossible) end.

(* [yexec m o s] = next state and what the call returns (as Owner.exec); an access changes nothing *)
Definition yexec (m : mode) (o : yop) (s : ystate) : ystate * yresult :=
  match o with
  | YCreate kind slot =>
      if (kind <? 4) && (slot <? 16) && (ynreg s <? 100) then
        let r := ynreg s in
        let x := {| y_kind := kind; y_slot := slot;
                    y_owned := negb (kind =? 3);     (* unix :536, foreign :607 always map; grant iff mmap_in_advance :827 *)
                    y_strong := 1%nat; y_live := negb (kind =? 3); y_unmaps := O;
                    y_gnt := kind =? 2;              (* :828 mmap_range -> :844 map ioctl *)
                    y_gunmaps := O; y_ub := false |} in
        ({| yreg := updf (yreg s) r x; ynreg := r + 1; ysnaps := ysnaps s; yhandles := yhandles s ++ [Some (HRegion r)] |},
         YDone [r])
      else (s, YImpossible)
  | YBuild hs =>
      match yregion_handles s hs with
      | Some rs =>
          let f1 := yclone_arcs rs (yreg s) in
          if yfrom_arc_ok f1 rs then (ypush s f1 [HMap rs], YDone rs)
          else (ywith_reg s (ydrop_arcs rs f1), YFailed)
      | None => (s, YImpossible) end
  | YInsert hm hr =>
      match yget_handle s hm, yget_handle s hr with
      | Some (HMap rs), Some (HRegion r) =>
          let f1 := yclone_arcs rs (yreg s) in
          let f2 := updf f1 r (yclone1 (f1 r)) in
          let rs' := ysort_by_start f2 (rs ++ [r]) in
          if yfrom_arc_ok f2 rs' then (ypush s f2 [HMap rs'], YDone rs')
          else (ywith_reg s (ydrop_arcs rs' f2), YFailed)
      | _, _ => (s, YImpossible) end
  | YRemove hm base size =>
      match yget_handle s hm with
      | Some (HMap rs) =>
          match yfind_start (yreg s) base rs with
          | Some i =>
              if size =? PAGE then
                let f1 := yclone_arcs rs (yreg s) in
                let r := nth i rs 0 in
                (ypush s f1 [HMap (remove_nth i rs); HRegion r], YDone [r])
              else (s, YFailed)
          | None => (s, YFailed) end
      | _ => (s, YImpossible) end
  | YCloneH h =>
      match yget_handle s h with
      | Some (HRegion r) => (ypush s (updf (yreg s) r (yclone1 (yreg s r))) [HRegion r], YDone [r])
      | Some (HMap rs) => (ypush s (yclone_arcs rs (yreg s)) [HMap rs], YDone rs)
      | Some (HSnap a) =>
          match nth_error (ysnaps s) a with
          | Some sn =>
              ({| yreg := yreg s; ynreg := ynreg s;
                  ysnaps := set_nth (ysnaps s) a {| s_strong := S (s_strong sn); s_regions := s_regions sn |};
                  yhandles := yhandles s ++ [Some (HSnap a)] |}, YDone (s_regions sn))
          | None => (s, YImpossible) end
      | None => (s, YImpossible) end
  | YSnap hm =>
      match yget_handle s hm with
      | Some (HMap rs) =>
          ({| yreg := yclone_arcs rs (yreg s); ynreg := ynreg s;
              ysnaps := ysnaps s ++ [{| s_strong := 1%nat; s_regions := rs |}];
              yhandles := yhandles s ++ [Some (HSnap (length (ysnaps s)))] |}, YDone rs)
      | _ => (s, YImpossible) end
  | YDropH h =>
      match yget_handle s h with
      | Some (HRegion r) =>
          ({| yreg := updf (yreg s) r (ydrop1 (yreg s r)); ynreg := ynreg s; ysnaps := ysnaps s;
              yhandles := set_nth (yhandles s) h None |}, YDone [])
      | Some (HMap rs) =>
          ({| yreg := ydrop_arcs rs (yreg s); ynreg := ynreg s; ysnaps := ysnaps s;
              yhandles := set_nth (yhandles s) h None |}, YDone [])
      | Some (HSnap a) =>
          match nth_error (ysnaps s) a with
          | Some sn =>
              match s_strong sn with
              | S O =>
                  ({| yreg := ydrop_arcs (s_regions sn) (yreg s); ynreg := ynreg s;
                      ysnaps := set_nth (ysnaps s) a {| s_strong := O; s_regions := [] |};
                      yhandles := set_nth (yhandles s) h None |}, YDone [])
              | n =>
                  ({| yreg := yreg s; ynreg := ynreg s;
                      ysnaps := set_nth (ysnaps s) a {| s_strong := pred n; s_regions := s_regions sn |};
                      yhandles := set_nth (yhandles s) h None |}, YDone [])
              end
          | None => (s, YImpossible) end
      | None => (s, YImpossible) end
  | YAccess h sel off len ak => (s, snd (yaccess m s h sel off len ak))
  end.

Fixpoint yrun_from (m : mode) (l : list yop) (s : ystate) {struct l} : ystate :=
  match l with [] => s | o :: t => yrun_from m t (fst (yexec m o s)) end.
Definition yrun (m : mode) (l : list yop) : ystate := yrun_from m l yinit.

(* ---- the device / OS events of one operation (Impl/Xen.v event lists), computed from the state BEFORE it *)
Definition ydrop_region_evs (m : mode) (x : yrec) (r : N) : list ev :=
  match yxregion m (y_kind x) r (y_slot x) with
  | Some g => match xen_drop m (yos m) g with Val l => l | _ => [] end
  | None => [] end.
(* the regions whose last Arc goes away while the Arcs of rs are dropped one after the other (Vec drop order) *)
Fixpoint ydrop_arcs_evs (m : mode) (rs : list N) (f : N -> yrec) {struct rs} : list ev :=
  match rs with
  | [] => []
  | r :: t => (match y_strong (f r) with S O => ydrop_region_evs m (f r) r | _ => [] end)
              ++ ydrop_arcs_evs m t (updf f r (ydrop1 (f r)))
  end.
Definition yevs (m : mode) (o : yop) (s : ystate) : list ev :=
  match o with
  | YCreate kind slot =>
      if (kind <? 4) && (slot <? 16) && (ynreg s <? 100) then
        match ybuild m kind (ynreg s) slot with Val (_, l) => l | _ => [] end
      else []
  | YBuild hs =>
      match yregion_handles s hs with
      | Some rs => let f1 := yclone_arcs rs (yreg s) in
                   if yfrom_arc_ok f1 rs then [] else ydrop_arcs_evs m rs f1
      | None => [] end
  | YInsert hm hr =>
      match yget_handle s hm, yget_handle s hr with
      | Some (HMap rs), Some (HRegion r) =>
          let f1 := yclone_arcs rs (yreg s) in
          let f2 := updf f1 r (yclone1 (f1 r)) in
          let rs' := ysort_by_start f2 (rs ++ [r]) in
          if yfrom_arc_ok f2 rs' then [] else ydrop_arcs_evs m rs' f2
      | _, _ => [] end
  | YDropH h =>
      match yget_handle s h with
      | Some (HRegion r) => ydrop_arcs_evs m [r] (yreg s)
      | Some (HMap rs) => ydrop_arcs_evs m rs (yreg s)
      | Some (HSnap a) =>
          match nth_error (ysnaps s) a with
          | Some sn => match s_strong sn with S O => ydrop_arcs_evs m (s_regions sn) (yreg s) | _ => [] end
          | None => [] end
      | None => [] end
  | YAccess h sel off len ak => fst (yaccess m s h sel off len ak)
  | _ => []
  end.

(* ---- readings used in the theorem statements (not part of the machine) *)
Definition yowners (r : N) (s : ystate) : nat := (hrefs r (yhandles s) + srefs r (ysnaps s))%nat.
Definition yreach_list (s : ystate) (h : handle) : list N :=
  match h with
  | HRegion r => [r]
  | HMap rs => rs
  | HSnap a => match nth_error (ysnaps s) a with Some sn => s_regions sn | None => [] end
  end.
Definition yreaches (s : ystate) (r : N) : Prop :=
  exists i h, nth_error (yhandles s) i = Some (Some h) /\ In r (yreach_list s h).
Definition yquiescent (s : ystate) : Prop := forall i h, nth_error (yhandles s) i <> Some (Some h).
