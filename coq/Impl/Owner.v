(* Ownership / reference-count machine for the mmap backend.

   Objects
     region r   one MmapRegion wrapped in a GuestRegionMmap inside an Arc (mmap/mod.rs:109-112, :373).
                r_owned   = the `owned` field of the MmapRegion: build() sets true after its own mmap
                            (mmap/unix.rs:177-186), build_raw() sets false (:200-209)
                r_strong  = strong count of the Arc<GuestRegionMmap>
                r_live    = the kernel mapping behind it is still mapped
                r_unmaps  = number of munmap calls the library issued for it
                r_ub      = strong-count underflow (a drop without a reference): never (theorem)
     map        GuestMemoryMmap { regions: Vec<Arc<GuestRegionMmap>> } (:371-374): a VALUE owning one
                reference per element; #[derive(Clone)] clones every Arc
     snapshot a Arc<GuestMemoryMmap>: strong count + the map it owns
     handle     what the client program holds: an Arc<GuestRegionMmap>, a map value, an Arc<map>
   Drop glue (rustc): dropping a map drops each Arc; an Arc reaching 0 drops the GuestRegionMmap, whose
   MmapRegion field runs  `impl Drop for MmapRegion { if self.owned { munmap(addr, size) } }`
   (mmap/unix.rs:424-441).
   Guest layout used by the suite: the region created in slot k covers [k*0x10000, k*0x10000+0x1000).

   REFUSALS (added): a creation the library refuses (CreateRefused), and the two calls that CONSUME their
   arguments - from_regions / from_arc_regions taking the vector by value (BuildMove) and insert_region taking the
   Arc by value (InsertMove): whatever the call does not keep is dropped before it returns, Ok or Err. *)
From VM Require Import Prelude.MachInt.

Definition updf {A} (f : N -> A) (k : N) (v : A) : N -> A := fun x => if x =? k then v else f x.

Record rrec := { r_kind : N; r_slot : N; r_owned : bool; r_strong : nat; r_live : bool; r_unmaps : nat; r_ub : bool }.
Definition rdefault : rrec :=
  {| r_kind := 0; r_slot := 0; r_owned := false; r_strong := O; r_live := false; r_unmaps := O; r_ub := false |}.
Record snap := { s_strong : nat; s_regions : list N }.
Inductive handle := HRegion (r : N) | HMap (rs : list N) | HSnap (a : nat).

Record state := {
  reg : N -> rrec;
  nreg : N;                          (* regions 0 .. nreg-1 were created *)
  snaps : list snap;
  handles : list (option handle)     (* None = dropped; ids are never reused *)
}.
Definition init : state := {| reg := fun _ => rdefault; nreg := 0; snaps := []; handles := [] |}.

Definition with_strong (x : rrec) (n : nat) : rrec :=
  {| r_kind := r_kind x; r_slot := r_slot x; r_owned := r_owned x; r_strong := n; r_live := r_live x;
     r_unmaps := r_unmaps x; r_ub := r_ub x |}.

(* Arc::clone *)
Definition clone1 (x : rrec) : rrec := with_strong x (S (r_strong x)).
(* impl Drop for MmapRegion, mmap/unix.rs:424-441: `if self.owned { munmap(self.addr, self.size) }` - the region's OWN
   mapping, exactly: address and size are those build() got from mmap; no other field (file offset, prot, flags, the
   caller's hugetlbfs hint) enters, and no other region's record is touched *)
Definition drop_region (x : rrec) : rrec :=
  if r_owned x then
    {| r_kind := r_kind x; r_slot := r_slot x; r_owned := r_owned x; r_strong := r_strong x; r_live := false;
       r_unmaps := S (r_unmaps x); r_ub := r_ub x |}
  else x.
(* drop of one Arc<GuestRegionMmap> *)
Definition drop1 (x : rrec) : rrec :=
  match r_strong x with
  | O => {| r_kind := r_kind x; r_slot := r_slot x; r_owned := r_owned x; r_strong := O; r_live := r_live x;
            r_unmaps := r_unmaps x; r_ub := true |}
  | S O => drop_region (with_strong x O)
  | S n => with_strong x n
  end.

Fixpoint clone_arcs (rs : list N) (f : N -> rrec) {struct rs} : N -> rrec :=
  match rs with [] => f | r :: t => clone_arcs t (updf f r (clone1 (f r))) end.
Fixpoint drop_arcs (rs : list N) (f : N -> rrec) {struct rs} : N -> rrec :=
  match rs with [] => f | r :: t => drop_arcs t (updf f r (drop1 (f r))) end.

Fixpoint set_nth {A} (l : list A) (i : nat) (v : A) {struct l} : list A :=
  match l, i with
  | [], _ => []
  | _ :: r, O => v :: r
  | x :: r, S j => x :: set_nth r j v
  end.
Definition get_handle (s : state) (i : nat) : option handle :=
  match nth_error (handles s) i with Some (Some h) => Some h | _ => None end.

(* ---- layout arithmetic of the suite's regions *)
Definition PAGE : N := 4096.
Definition start_of (f : N -> rrec) (r : N) : N := r_slot (f r) * 65536.
Definition last_of (f : N -> rrec) (r : N) : N := start_of f r + PAGE - 1.

(* from_arc_regions, mmap/mod.rs:433-452: true = Ok *)
Fixpoint windows_ok (f : N -> rrec) (rs : list N) {struct rs} : bool :=
  match rs with
  | prev :: t =>
      match t with
      | next :: _ =>
          if start_of f next <? start_of f prev then false             (* :442 UnsortedMemoryRegions *)
          else if start_of f next <=? last_of f prev then false        (* :446 MemoryRegionOverlap *)
          else windows_ok f t
      | [] => true end
  | [] => true end.
Definition from_arc_regions_ok (f : N -> rrec) (rs : list N) : bool :=
  match rs with [] => false (* :434 NoMemoryRegion *) | _ => windows_ok f rs end.

(* regions.sort_by_key(|x| x.start_addr()) :464 - a stable sort; here: stable insertion sort *)
Fixpoint insert_sorted (f : N -> rrec) (r : N) (l : list N) {struct l} : list N :=
  match l with
  | [] => [r]
  | x :: t => if start_of f r <? start_of f x then r :: x :: t else x :: insert_sorted f r t
  end.
Fixpoint sort_by_start (f : N -> rrec) (l : list N) {struct l} : list N :=
  match l with [] => [] | x :: t => insert_sorted f x (sort_by_start f t) end.

(* binary_search_by_key(&base, |x| x.start_addr()) :480 on a map (strictly increasing starts, an
   invariant of every constructed map): the index of the element whose start is base *)
Fixpoint find_start (f : N -> rrec) (base : N) (rs : list N) {struct rs} : option nat :=
  match rs with
  | [] => None
  | r :: t => if start_of f r =? base then Some O
              else match find_start f base t with Some i => Some (S i) | None => None end
  end.
Fixpoint remove_nth (i : nat) (l : list N) {struct l} : list N :=
  match l, i with
  | [], _ => []
  | _ :: t, O => t
  | x :: t, S j => x :: remove_nth j t
  end.

Inductive op :=
  | Create (kind slot : N)                 (* kind 0 anonymous, 1 file, 2 raw (externally provided) *)
  | Build (hs : list nat)                  (* from_arc_regions(vec of clones of the handles' Arcs) *)
  | Insert (hm hr : nat)                   (* map.insert_region(Arc::clone(handle)) *)
  | Remove (hm : nat) (base size : N)      (* map.remove_region(base, size) *)
  | CloneH (h : nat)
  | Snap (hm : nat)                        (* Arc::new(map.clone()) *)
  | DropH (h : nat)
  (* a creation request the library refuses.  v < 6: refused by MmapRegionBuilder::build / build_raw BEFORE any mmap
     (0 file range past EOF, 1 file offset + size overflows: check_file_offset mmap/unix.rs:140 -> mmap/mod.rs:80-101;
      2 / 3 MAP_FIXED in the flags, anonymous / file: unix.rs:132-134; 4 / 5 misaligned raw pointer through
      with_raw_mmap_pointer().build() / MmapRegion::build_raw: unix.rs:199-202).
     v = 6 / 7 / 8: an anonymous / file / raw MmapRegion was BUILT and GuestRegionMmap::new(mapping, base) refuses it
     (base + size overflows, mmap/mod.rs:120-122); `mapping` was moved into the call and is dropped there *)
  | CreateRefused (v slot : N)
  (* from_arc_regions(vec![the handles' Arcs themselves]) / (unwrap) from_regions(vec![Arc::try_unwrap(handle)..]):
     the handles are moved into the call (mmap/mod.rs:420-452) *)
  | BuildMove (unwrap : bool) (hs : list nat)
  (* map.insert_region(the handle's Arc itself) (mmap/mod.rs:458-467) *)
  | InsertMove (hm hr : nat).

Inductive result := Done (v : list N) | Failed | Impossible.

Fixpoint region_handles (s : state) (hs : list nat) {struct hs} : option (list N) :=
  match hs with
  | [] => Some []
  | h :: t => match get_handle s h, region_handles s t with
              | Some (HRegion r), Some l => Some (r :: l)
              | _, _ => None end
  end.

(* handles moved out of the handle table *)
Fixpoint kill (hs : list nat) (l : list (option handle)) {struct hs} : list (option handle) :=
  match hs with [] => l | h :: t => kill t (set_nth l h None) end.
Fixpoint nodupb (l : list nat) {struct l} : bool :=
  match l with [] => true | x :: t => negb (existsb (Nat.eqb x) t) && nodupb t end.
(* Arc::try_unwrap succeeds iff the strong count is 1 *)
Definition all_sole (f : N -> rrec) (rs : list N) : bool := forallb (fun r => Nat.eqb (r_strong (f r)) 1) rs.

Definition push (s : state) (f : N -> rrec) (hs : list handle) : state :=
  {| reg := f; nreg := nreg s; snaps := snaps s; handles := handles s ++ map Some hs |}.
Definition with_reg (s : state) (f : N -> rrec) : state :=
  {| reg := f; nreg := nreg s; snaps := snaps s; handles := handles s |}.

(* [exec o s] = next state and what the call returns: Done ids (the regions reachable through the new
   handle(s)), Failed (the library returned Err; everything it had cloned was dropped again),
   Impossible (the handle ids do not denote live handles of the right kind; nothing happens) *)
Definition exec (o : op) (s : state) : state * result :=
  match o with
  | Create kind slot =>
      let r := nreg s in
      let x := {| r_kind := kind; r_slot := slot;
                  r_owned := negb (kind =? 2);       (* build(): owned = true :184 / build_raw(): false :207 *)
                  r_strong := 1%nat; r_live := true; r_unmaps := O; r_ub := false |} in
      ({| reg := updf (reg s) r x; nreg := r + 1; snaps := snaps s; handles := handles s ++ [Some (HRegion r)] |},
       Done [r])
  | Build hs =>
      match region_handles s hs with
      | Some rs =>
          let f1 := clone_arcs rs (reg s) in                           (* the harness clones each Arc *)
          if from_arc_regions_ok f1 rs then (push s f1 [HMap rs], Done rs)
          else (with_reg s (drop_arcs rs f1), Failed)                  (* Err: the Vec is dropped *)
      | None => (s, Impossible) end
  | Insert hm hr =>
      match get_handle s hm, get_handle s hr with
      | Some (HMap rs), Some (HRegion r) =>
          let f1 := clone_arcs rs (reg s) in                           (* :462 self.regions.clone() *)
          let f2 := updf f1 r (clone1 (f1 r)) in                       (* the Arc passed by value *)
          let rs' := sort_by_start f2 (rs ++ [r]) in                   (* :463 push, :464 sort *)
          if from_arc_regions_ok f2 rs' then (push s f2 [HMap rs'], Done rs')    (* :466 *)
          else (with_reg s (drop_arcs rs' f2), Failed)
      | _, _ => (s, Impossible) end
  | Remove hm base size =>
      match get_handle s hm with
      | Some (HMap rs) =>
          match find_start (reg s) base rs with                        (* :480 *)
          | Some i =>
              if size =? PAGE then                                     (* :481 mapping.size() == size *)
                let f1 := clone_arcs rs (reg s) in                     (* :482 *)
                let r := nth i rs 0 in                                 (* :483 regions.remove(index) *)
                (push s f1 [HMap (remove_nth i rs); HRegion r], Done [r])        (* :484 *)
              else (s, Failed)
          | None => (s, Failed) end                                    (* :488 *)
      | _ => (s, Impossible) end
  | CloneH h =>
      match get_handle s h with
      | Some (HRegion r) => (push s (updf (reg s) r (clone1 (reg s r))) [HRegion r], Done [r])
      | Some (HMap rs) => (push s (clone_arcs rs (reg s)) [HMap rs], Done rs)
      | Some (HSnap a) =>
          match nth_error (snaps s) a with
          | Some sn =>
              ({| reg := reg s; nreg := nreg s;
                  snaps := set_nth (snaps s) a {| s_strong := S (s_strong sn); s_regions := s_regions sn |};
                  handles := handles s ++ [Some (HSnap a)] |}, Done (s_regions sn))
          | None => (s, Impossible) end
      | None => (s, Impossible) end
  | Snap hm =>
      match get_handle s hm with
      | Some (HMap rs) =>
          ({| reg := clone_arcs rs (reg s); nreg := nreg s;
              snaps := snaps s ++ [{| s_strong := 1%nat; s_regions := rs |}];
              handles := handles s ++ [Some (HSnap (length (snaps s)))] |}, Done rs)
      | _ => (s, Impossible) end
  | DropH h =>
      match get_handle s h with
      | Some (HRegion r) =>
          ({| reg := updf (reg s) r (drop1 (reg s r)); nreg := nreg s; snaps := snaps s;
              handles := set_nth (handles s) h None |}, Done [])
      | Some (HMap rs) =>
          ({| reg := drop_arcs rs (reg s); nreg := nreg s; snaps := snaps s;
              handles := set_nth (handles s) h None |}, Done [])
      | Some (HSnap a) =>
          match nth_error (snaps s) a with
          | Some sn =>
              match s_strong sn with
              | S O =>       (* last Arc<map>: the map is dropped, and with it every Arc it holds *)
                  ({| reg := drop_arcs (s_regions sn) (reg s); nreg := nreg s;
                      snaps := set_nth (snaps s) a {| s_strong := O; s_regions := [] |};
                      handles := set_nth (handles s) h None |}, Done [])
              | n =>
                  ({| reg := reg s; nreg := nreg s;
                      snaps := set_nth (snaps s) a {| s_strong := pred n; s_regions := s_regions sn |};
                      handles := set_nth (handles s) h None |}, Done [])
              end
          | None => (s, Impossible) end
      | None => (s, Impossible) end
  | CreateRefused v slot =>
      if v <? 6 then (s, Failed)                     (* Err before the mmap call: nothing was mapped *)
      else
        let r := nreg s in
        let kind := (v - 6) mod 3 in
        (* what build() / build_raw() returned: mapped, owned unless raw; never put into an Arc *)
        let built := {| r_kind := kind; r_slot := slot; r_owned := negb (kind =? 2); r_strong := O; r_live := true;
                        r_unmaps := O; r_ub := false |} in
        (* GuestRegionMmap::new: Err(InvalidGuestRegion) :121; the MmapRegion it was given is dropped *)
        ({| reg := updf (reg s) r (drop_region built); nreg := r + 1; snaps := snaps s; handles := handles s |}, Failed)
  | BuildMove unwrap hs =>
      match region_handles s hs with
      | Some rs =>
          if nodupb hs && (if unwrap then all_sole (reg s) rs else true) then
            let hl := kill hs (handles s) in                               (* moved into the Vec *)
            if from_arc_regions_ok (reg s) rs                              (* :433-452 (after Arc::new, count 1, for from_regions :421) *)
            then ({| reg := reg s; nreg := nreg s; snaps := snaps s; handles := hl ++ [Some (HMap rs)] |}, Done rs)
            else ({| reg := drop_arcs rs (reg s); nreg := nreg s; snaps := snaps s; handles := hl |}, Failed)   (* Err: the Vec is dropped *)
          else (s, Impossible)
      | None => (s, Impossible) end
  | InsertMove hm hr =>
      match get_handle s hm, get_handle s hr with
      | Some (HMap rs), Some (HRegion r) =>
          let f1 := clone_arcs rs (reg s) in                               (* :462 self.regions.clone() *)
          let rs' := sort_by_start f1 (rs ++ [r]) in                       (* :463 push(region), :464 sort *)
          let hl := set_nth (handles s) hr None in                         (* the Arc was moved into the call *)
          if from_arc_regions_ok f1 rs'                                    (* :466 *)
          then ({| reg := f1; nreg := nreg s; snaps := snaps s; handles := hl ++ [Some (HMap rs')] |}, Done rs')
          else ({| reg := drop_arcs rs' f1; nreg := nreg s; snaps := snaps s; handles := hl |}, Failed)
      | _, _ => (s, Impossible) end
  end.

(* the handles an operation is given *)
Definition args (o : op) : list nat :=
  match o with
  | Create _ _ | CreateRefused _ _ => []
  | Build hs | BuildMove _ hs => hs
  | Insert hm hr | InsertMove hm hr => [hm; hr]
  | Remove hm _ _ | Snap hm => [hm]
  | CloneH h | DropH h => [h]
  end.
(* the handles an operation consumes (moves out of the client's hands), whatever it answers *)
Definition consumed (o : op) : list nat :=
  match o with BuildMove _ hs => hs | InsertMove _ hr => [hr] | _ => [] end.

Fixpoint run_from (l : list op) (s : state) {struct l} : state :=
  match l with [] => s | o :: t => run_from t (fst (exec o s)) end.
Definition run (l : list op) : state := run_from l init.

(* ---- readings used in the theorem statements (not part of the machine) *)
Fixpoint count (r : N) (l : list N) {struct l} : nat :=
  match l with [] => O | x :: t => ((if N.eqb r x then 1 else 0) + count r t)%nat end.
(* references to region r held by one handle / all live handles / all snapshots *)
Definition href (r : N) (h : handle) : nat :=
  match h with HRegion r' => if N.eqb r r' then 1%nat else O | HMap rs => count r rs | HSnap _ => O end.
Fixpoint hrefs (r : N) (hs : list (option handle)) {struct hs} : nat :=
  match hs with [] => O | Some h :: t => (href r h + hrefs r t)%nat | None :: t => hrefs r t end.
Fixpoint srefs (r : N) (ss : list snap) {struct ss} : nat :=
  match ss with [] => O | sn :: t => (count r (s_regions sn) + srefs r t)%nat end.
(* number of owners of region r: every Arc<GuestRegionMmap> that exists *)
Definition owners (r : N) (s : state) : nat := (hrefs r (handles s) + srefs r (snaps s))%nat.
Fixpoint snap_handles (a : nat) (hs : list (option handle)) {struct hs} : nat :=
  match hs with
  | [] => O
  | Some (HSnap a') :: t => ((if Nat.eqb a a' then 1 else 0) + snap_handles a t)%nat
  | _ :: t => snap_handles a t end.
(* the regions a client can reach through a handle *)
Definition reach_list (s : state) (h : handle) : list N :=
  match h with
  | HRegion r => [r]
  | HMap rs => rs
  | HSnap a => match nth_error (snaps s) a with Some sn => s_regions sn | None => [] end
  end.
Definition reaches (s : state) (r : N) : Prop :=
  exists i h, nth_error (handles s) i = Some (Some h) /\ In r (reach_list s h).
Definition quiescent (s : state) : Prop := forall i h, nth_error (handles s) i <> Some (Some h).
