(* src/mmap/xen.rs: MmapXenFlags, pages, validate_file, MmapRegion::from_range, MmapXen::new and the
   three back ends (unix / foreign / grant), MmapXenSlice::new_with (the on-demand window),
   unmap_range, Drop; and src/volatile_memory.rs: the PtrGuard taken by each accessor kind and by
   each access operation.  Line-by-line transcription; OS answers are inputs (record os of
   Impl/MmapBuild.v), every OS call is logged (list ev). *)
From VM Require Import Prelude.MachInt Prelude.Outcome Impl.MmapBuild.

(* ---------------------------------------------------------------- MmapXenFlags (xen.rs:436-486) *)
Definition XF_FOREIGN : N := 1.
Definition XF_GRANT : N := 2.
Definition XF_NO_ADVANCE_MAP : N := 8.
Definition XF_KNOWN : N := 11.       (* union of all declared flags: UNIX=0 | FOREIGN | GRANT | NO_ADVANCE_MAP | ALL *)
(* bitflags' from_bits: None if any bit outside the declared flags is set *)
Definition from_bits (w : N) : option N := if N.ldiff w XF_KNOWN =? 0 then Some w else None.
Definition contains (bits f : N) : bool := N.land bits f =? f.
Definition is_unix (b : N) : bool := b =? 0.                              (* :468-470 *)
Definition is_foreign (b : N) : bool := contains b XF_FOREIGN.           (* :473-475 *)
Definition is_grant (b : N) : bool := contains b XF_GRANT.               (* :478-480 *)
Definition mmap_in_advance (b : N) : bool := negb (contains b XF_NO_ADVANCE_MAP).   (* :483-485 *)
Definition is_valid (b : N) : bool :=                                     (* :455-465 *)
  if is_grant b then negb (is_foreign b)
  else if is_foreign b || is_unix b then mmap_in_advance b
  else false.

(* :493-498  usize::div_ceil = d + (r > 0), then page_size * num *)
Definition pages (m : mode) (ps size : N) : outcome (N * N) :=
  let* d := pdiv 495 size ps in
  let num := if 0 <? size mod ps then d + 1 else d in
  let* tot := pmul m 497 ps num in
  Val (num, tot).

(* :500-515 *)
Definition validate_file (f : option N) : res N :=
  match f with
  | None => Err InvalidFileOffset
  | Some s => if negb (s =? 0) then Err InvalidOffsetLength else Ok s
  end.

(* struct MmapRange :77-86 *)
Record xrange := { x_size : N; x_file : option N; x_prot : option N; x_flags : option N;
                   x_addr : N; x_mflags : N; x_mdata : N }.

Inductive xkind := XUnix | XForeign | XGrant.
(* MmapRegion + MmapXen + back end, :154-162, :970-974.  xr_mapped = Some (bytes mapped, index) when
   the back end holds a mapping of its own (always for unix/foreign, for grant iff mapped in advance) *)
Record xregion := { xr_size : N; xr_prot : N; xr_flags : N; xr_file : option N; xr_mflags : N;
                    xr_mdata : N; xr_kind : xkind; xr_base : N; xr_mapped : option (N * N) }.

Definition ok_or {A} (x : option A) : res A := match x with Some a => Ok a | None => Err UnexpectedError end.

(* the emulated gntdev hands out index = grant reference * page size (harness/src/suites/c17_xen.rs);
   a real gntdev picks its own.  No theorem depends on this choice. *)
Definition dev_index (ps gref : N) : N := gref * ps.

(* MmapUnix::new :403-418 *)
Definition mmap_unix (o : os) (size prot flags : N) (file : bool) (off : N) : res unit * list ev :=
  if os_mmap_ok o then (Ok tt, [EvMmap size prot flags file off true])
  else (Err MmapErr, [EvMmap size prot flags file off false]).

(* MmapXenUnix::new :528-543 *)
Definition xunix_new (o : os) (r : xrange) : outcome (res (option (N * N)) * list ev) :=
  let '(c, l1) := match x_file r with
                  | Some start => check_file_offset o start (x_size r)
                  | None => (Ok tt, []) end in
  match c with
  | Err e => Val (Err e, l1)
  | Ok _ =>
    match ok_or (x_prot r) with Err e => Val (Err e, l1) | Ok prot =>
    match ok_or (x_flags r) with Err e => Val (Err e, l1) | Ok flags =>
      let '(u, l2) := mmap_unix o (x_size r) prot flags
                        (match x_file r with Some _ => true | None => false end)
                        (match x_file r with Some s => s | None => 0 end) in
      match u with
      | Err e => Val (Err e, l1 ++ l2)
      | Ok _ => Val (Ok (Some (x_size r, 0)), l1 ++ l2)
      end
    end end
  end.

(* MmapXenForeign::new :603-624 and mmap_ioctl :627-653 *)
Definition xforeign_new (m : mode) (o : os) (r : xrange) : outcome (res (option (N * N)) * list ev) :=
  match validate_file (x_file r) with                                     (* :604 *)
  | Err e => Val (Err e, [])
  | Ok foff =>
    let* (count, size) := pages m (os_page o) (x_size r) in               (* :605 *)
    match ok_or (x_prot r) with Err e => Val (Err e, []) | Ok prot =>
    match ok_or (x_flags r) with Err e => Val (Err e, []) | Ok flags =>
      let '(u, l1) := mmap_unix o size prot (N.lor flags MAP_SHARED) true foff in   (* :607-613 *)
      match u with
      | Err e => Val (Err e, l1)
      | Ok _ =>
          let* _ := pdiv 628 (x_addr r) (os_page o) in                    (* :628 base = guest_base / page_size *)
          if os_ioctl_ok o then Val (Ok (Some (size, 0)), l1 ++ [EvIoctlForeign count true])
          else (* :622 `?` drops `foreign`, whose MmapUnix field unmaps *)
               Val (Err MmapErr, l1 ++ [EvIoctlForeign count false; EvMunmap size])
      end
    end end
  end.

(* MmapXenGrant::mmap_ioctl :858-871: base = ((addr & !(1<<63)) / page_size) as u32 *)
Definition grant_ref (ps addr : N) : outcome N :=
  let* q := pdiv 859 (addr mod 9223372036854775808) ps in Val (q mod 4294967296).

(* MmapXenGrant::mmap_range :842-848.  Returns (bytes mapped, index). *)
Definition mmap_range (m : mode) (o : os) (flags addr size prot : N) : outcome (res (N * N) * list ev) :=
  let* (count, msize) := pages m (os_page o) size in                      (* :843 *)
  let* gref := grant_ref (os_page o) addr in
  let index := dev_index (os_page o) gref in
  let c32 := count mod 4294967296 in            (* the fam struct / ioctl argument carry a u32 count *)
  (* :844; like the real gntdev, the device refuses a request for 0 grants (EINVAL) *)
  if os_ioctl_ok o && (0 <? c32) then
    let '(u, l2) := mmap_unix o msize prot flags true index in             (* :845 *)
    match u with
    | Err e => Val (Err e, EvIoctlMap gref c32 index true :: l2)
    | Ok _ => Val (Ok (msize, index), EvIoctlMap gref c32 index true :: l2)
    end
  else Val (Err MmapErr, [EvIoctlMap gref c32 index false]).

(* MmapXenGrant::unmap_range :850-856: drop(unix_mmap) then unmap_ioctl(count, index).unwrap() *)
Definition unmap_range (m : mode) (o : os) (msize size index : N) : outcome (list ev) :=
  let* (count, _) := pages m (os_page o) size in
  Val [EvMunmap msize; EvIoctlUnmap index (count mod 4294967296)].

(* MmapXenGrant::new :812-840 *)
Definition xgrant_new (m : mode) (o : os) (r : xrange) (mflags : N)
  : outcome (res (option (N * N)) * list ev) :=
  match validate_file (x_file r) with                                     (* :813 *)
  | Err e => Val (Err e, [])
  | Ok _ =>
    match ok_or (x_flags r) with Err e => Val (Err e, []) | Ok flags =>   (* :819 *)
      if mmap_in_advance mflags then                                       (* :827 *)
        match ok_or (x_prot r) with Err e => Val (Err e, []) | Ok prot =>
          let* (u, l) := mmap_range m o flags (x_addr r) (x_size r) prot in   (* :828-832 *)
          match u with
          | Err e => Val (Err e, l)
          | Ok (msize, index) => Val (Ok (Some (msize, index)), l)
          end
        end
      else Val (Ok None, [])
    end
  end.

(* MmapXen::new :977-998 *)
Definition xen_new (m : mode) (o : os) (r : xrange)
  : outcome (res (N * xkind * option (N * N)) * list ev) :=
  match from_bits (x_mflags r) with
  | None => Val (Err MmapFlags, [])                                        (* :980 *)
  | Some f =>
      if negb (is_valid f) then Val (Err MmapFlags, [])                    (* :983-985 *)
      else if is_foreign f then                                            (* :990 *)
        let* (u, l) := xforeign_new m o r in
        Val (match u with Ok mp => Ok (f, XForeign, mp) | Err e => Err e end, l)
      else if is_grant f then                                              (* :992 *)
        let* (u, l) := xgrant_new m o r f in
        Val (match u with Ok mp => Ok (f, XGrant, mp) | Err e => Err e end, l)
      else
        let* (u, l) := xunix_new o r in
        Val (match u with Ok mp => Ok (f, XUnix, mp) | Err e => Err e end, l)
  end.

(* MmapRegion::from_range :250-277 *)
Definition xen_from_range (m : mode) (o : os) (r : xrange) : outcome (res xregion * list ev) :=
  let prot := match x_prot r with None => Some (N.lor PROT_READ PROT_WRITE) | p => p end in   (* :251-253 *)
  match (match x_flags r with                                              (* :255-264 *)
         | Some fl => if negb (N.land fl MAP_FIXED =? 0) then Err MapFixed else Ok (Some fl)
         | None => Ok (Some (N.lor MAP_NORESERVE MAP_SHARED)) end) with
  | Err e => Val (Err e, [])
  | Ok flags =>
      let r' := {| x_size := x_size r; x_file := x_file r; x_prot := prot; x_flags := flags;
                   x_addr := x_addr r; x_mflags := x_mflags r; x_mdata := x_mdata r |} in
      let* (u, l) := xen_new m o r' in                                      (* :266 *)
      match u with
      | Err e => Val (Err e, l)
      | Ok (f, k, mp) =>
          match ok_or prot, ok_or flags with                                (* :271-272 *)
          | Ok p, Ok fl =>
              Val (Ok {| xr_size := x_size r; xr_prot := p; xr_flags := fl; xr_file := x_file r;
                         xr_mflags := f; xr_mdata := x_mdata r; xr_kind := k; xr_base := x_addr r;
                         xr_mapped := mp |}, l)
          | _, _ => Val (Err UnexpectedError, l)
          end
      end
  end.

(* Drop: MmapUnix :425-433 (unix, foreign), MmapXenGrant :902-908 (advance-mapped grant) *)
Definition xen_drop (m : mode) (o : os) (g : xregion) : outcome (list ev) :=
  match xr_mapped g with
  | None => Val []
  | Some (msize, index) =>
      match xr_kind g with
      | XGrant => unmap_range m o msize (xr_size g) index
      | _ => Val [EvMunmap msize]
      end
  end.

(* mod.rs:124-133 on the xen region *)
Definition xen_guest_region_new (m : mode) (o : os) (g : xregion) (base : N)
  : outcome (res xregion * list ev) :=
  match checked_add base (xr_size g) with
  | None => let* l := xen_drop m o g in Val (Err InvalidGuestRegion, l)
  | Some _ => Val (Ok g, [])
  end.

(* a region hands out accessors with mmap info (= takes windows on demand) iff not mapped in advance
   (xen.rs:375-379) *)
Definition on_demand (g : xregion) : bool := negb (mmap_in_advance (xr_mflags g)).

(* ------------------------------------------------- pointer guards (volatile_memory.rs) *)
(* an accessor: byte offset of its first byte from the parent's base, and its shape *)
Inductive acc := ASlice (size : N) | ARef (tsize : N) | AArray (tsize nelem : N).
(* PtrGuard::new(mmap, addr, write, len): the len each accessor kind passes *)
Definition guard_len (m : mode) (a : acc) : outcome N :=
  match a with
  | ASlice size => Val size                               (* :439-446  self.len() *)
  | ARef tsize => Val tsize                               (* :921-928  size_of::<T>() *)
  | AArray tsize nelem => pmul m 1103 nelem tsize         (* :1102-1109 self.len() * self.element_size() *)
  end.
(* the number of bytes the accessor covers, in exact arithmetic *)
Definition acc_bytes (a : acc) : N :=
  match a with ASlice s => s | ARef t => t | AArray t n => n * t end.

(* ------------------------------------------------- the on-demand window (xen.rs:930-949) *)
Record window := { w_page_base : N; w_inpage : N; w_bytes : N; w_gref : N; w_count : N;
                   w_msize : N; w_index : N }.

(* the arithmetic of MmapXenSlice::new_with *)
Definition window_arith (m : mode) (ps offset size : N) : outcome (N * N * N) :=
  let* q := pdiv 932 offset ps in
  let* page_base := pmul m 932 q ps in                     (* :932 (offset / page_size) * page_size *)
  let* inpage := psub m 933 offset page_base in            (* :933 *)
  let* wsize := padd m 934 inpage size in                  (* :934 size = offset + size *)
  Val (page_base, inpage, wsize).

(* MmapXen::mmap(Some(..)) :1016-1026 -> mmap_slice -> new_with; an Err is unwrapped (:1023).
   Returns the events up to the point reached together with the outcome. *)
Definition open_window (m : mode) (o : os) (g : xregion) (offset size prot : N)
  : list ev * outcome window :=
  match window_arith m (os_page o) offset size with
  | Val (page_base, inpage, wsize) =>
      match padd m 936 (xr_base g) page_base with          (* :936 *)
      | Val addr =>
          match mmap_range m o (xr_flags g) addr wsize prot with        (* :937 *)
          | Val (Ok (msize, index), l) =>
              match l with
              | EvIoctlMap gref count _ _ :: _ =>
                  (l, Val {| w_page_base := page_base; w_inpage := inpage; w_bytes := wsize;
                             w_gref := gref; w_count := count; w_msize := msize; w_index := index |})
              | _ => (l, Panic 937)
              end
          | Val (Err _, l) => (l, Panic 1023)                             (* unwrap of Err *)
          | Panic s => ([], Panic s)
          | OutOfFuel => ([], OutOfFuel)
          end
      | Panic s => ([], Panic s)
      | OutOfFuel => ([], OutOfFuel)
      end
  | Panic s => ([], Panic s)
  | OutOfFuel => ([], OutOfFuel)
  end.

(* Drop for MmapXenSlice :957-967 *)
Definition close_window (m : mode) (o : os) (w : window) : outcome (list ev) :=
  unmap_range m o (w_msize w) (w_bytes w) (w_index w).

(* one guarded access: PtrGuard::new ... the access ... drop.  On regions that are not on-demand
   MmapXenSlice::raw (:920-928) is used: no event. *)
Definition guarded (m : mode) (o : os) (g : xregion) (offset len : N) (write : bool)
  : list ev * outcome (option window) :=
  if on_demand g then
    (* new_with: `if size == 0 { return Ok(Self::raw(dangling)) }` - an empty range maps nothing *)
    if len =? 0 then ([], Val None) else
    let '(l1, w) := open_window m o g offset len (if write then PROT_WRITE else PROT_READ) in
    match w with
    | Val w' =>
        match close_window m o w' with
        | Val l2 => (l1 ++ l2, Val (Some w'))
        | Panic s => (l1, Panic s)
        | OutOfFuel => (l1, OutOfFuel)
        end
    | Panic s => (l1, Panic s)
    | OutOfFuel => (l1, OutOfFuel)
    end
  else ([], Val None).

(* ------------------------------------------------- access operations *)
(* compute_end_offset (volatile_memory.rs:283-297): Some end iff base+offset fits and <= len *)
Definition end_offset (len base offset : N) : option N :=
  match checked_add base offset with
  | Some e => if len <? e then None else Some e
  | None => None end.

Inductive xop :=
| XWrite (off len : N)                 (* Bytes::write(buf[len], off) on the GuestRegionMmap *)
| XRead (off len : N)                  (* Bytes::read *)
| XSliceGuard (off len : N) (w : bool) (* get_slice(off,len)?.ptr_guard() / ptr_guard_mut(), dropped at once.  Also every
                                          DERIVED slice over the same bytes: subslice / offset / split_at / VolatileRef::to_slice /
                                          VolatileArrayRef::to_slice / ref_at pass `mmap` along unchanged (volatile_memory.rs:
                                          offset, subslice, get_ref, get_array_ref, to_slice, ref_at), so the guard is the same;
                                          the harness reaches the slice by seven routes (wire field c), the model has one *)
| XRefStore (off tsize : N)            (* get_ref::<T>(off)?.store(v) *)
| XRefLoad (off tsize : N)
| XArrStore (off tsize n i : N)        (* get_array_ref::<T>(off,n)?.store(i,v) *)
| XArrLoad (off tsize n i : N)
| XArrCopyFrom (off tsize n k : N)     (* get_array_ref::<T>(off,n)?.copy_from(&buf[..k]) *)
| XArrCopyTo (off tsize n k : N)
| XAtomicLoad (off tsize : N)          (* Bytes::load::<uN>(off) -> get_atomic_ref: NO guard (:260-277, :845-848) *)
| XCopyToVS (off len : N)              (* get_slice(off,len)?.copy_to_volatile_slice(local): NO guard (:605-615) *)
| XReadFrom (off count srclen : N)     (* Bytes::read_volatile_from(off, &mut &src[..srclen], count) *)
| XWriteTo (off count : N)             (* Bytes::write_volatile_to(off, &mut Vec, count) *)
| XSliceCopyFrom (off len tsize k : N) (* get_slice(off,len)?.copy_from::<T>(&buf[..k]) *)
| XSliceCopyTo (off len tsize k : N)   (* get_slice(off,len)?.copy_to::<T>(&mut buf[..k]) *)
(* the same stream entry points with a DESCRIPTOR (std::fs::File) as the other end: the transfer is a
   read(2) / write(2) system call on the guarded pointer (io.rs:177-227) *)
| XReadFromFd (off count flen : N)     (* Bytes::read_volatile_from(off, &mut File holding flen bytes, at position 0, count) *)
| XReadExactFromFd (off count : N)     (* Bytes::read_exact_volatile_from(off, &mut File holding AT LEAST count bytes, count) *)
| XWriteToFd (off count : N)           (* Bytes::write_volatile_to(off, &mut File that takes every write in full, count) *)
| XWriteAllToFd (off count : N).       (* Bytes::write_all_volatile_to(off, &mut File that takes every write in full, count) *)

(* what an operation asks of the guard machinery: Error (no guard: the call returns Err / nothing to
   do), or one guard (offset, len, write) plus the byte range it then touches through the guard *)
Inductive plan := PErr | PNone | PGuard (goff glen : N) (write : bool) (toff tlen : N)
  | PRaw (toff tlen : N).    (* the stored address is dereferenced without any guard *)

Definition isz_mul (n t : N) : option N :=       (* isize::try_from(n).and_then(checked_mul(size)) :156-163 *)
  if (n <=? ISZ_MAX) && (n * t <=? ISZ_MAX) then Some (n * t) else None.

Definition op_plan (m : mode) (size : N) (op : xop) : outcome plan :=
  match op with
  | XWrite off len | XRead off len =>
      (* mod.rs:189-219 as_volatile_slice().unwrap().write(buf, maddr); volatile_memory.rs:696-735:
         empty -> Ok(0); addr >= size -> Err; self.offset(addr)?; copy_{to,from}_volatile_slice takes
         the guard of the WHOLE tail slice and copies min(tail, buf) bytes *)
      if len =? 0 then Val PNone
      else if size <=? off then Val PErr
      else Val (PGuard off (size - off) (match op with XWrite _ _ => true | _ => false end)
                       off (N.min (size - off) len))
  | XSliceGuard off len w =>
      match end_offset size off len with
      | None => Val PErr
      | Some _ => Val (PGuard off len w off len)   (* the harness reads / writes all len bytes through the guard *)
      end
  | XRefStore off t | XRefLoad off t =>
      match end_offset size off t with                     (* get_ref :122-147 *)
      | None => Val PErr
      | Some _ => Val (PGuard off t (match op with XRefStore _ _ => true | _ => false end) off t)
      end
  | XArrStore off t n i | XArrLoad off t n i =>
      match isz_mul n t with                               (* get_array_ref :151-187 *)
      | None => Val PErr
      | Some nb =>
          match end_offset size off nb with
          | None => Val PErr
          | Some _ =>
              let* _ := passert 1136 (i <? n) in           (* ref_at :1135 assert!(index < self.nelem) *)
              let* bo := pmul m 1141 t i in                (* :1141 element_size * index *)
              Val (PGuard (off + bo) t (match op with XArrStore _ _ _ _ => true | _ => false end)
                          (off + bo) t)
          end
      end
  | XArrCopyFrom off t n k | XArrCopyTo off t n k =>
      match isz_mul n t with
      | None => Val PErr
      | Some nb =>
          match end_offset size off nb with
          | None => Val PErr
          | Some _ =>
              let wr := match op with XArrCopyFrom _ _ _ _ => true | _ => false end in
              if t =? 1 then
                (* fast path :1182-1196 / :1266-1280: to_slice() then copy_*_volatile_slice: guard of
                   the slice (nelem * 1 bytes), min(k, n) bytes copied *)
                let* sl := pmul m 1118 n t in
                Val (PGuard off sl wr off (N.min k sl))
              else
                let* gl := guard_len m (AArray t n) in      (* :1198 / :1282 *)
                Val (PGuard off gl wr off (N.min k n * t))
          end
      end
  | XAtomicLoad off t =>
      match end_offset size off t with
      | None => Val PErr
      | Some _ => if off mod t =? 0 then Val (PRaw off t) else Val PErr    (* check_alignment; base is page aligned *)
      end
  | XCopyToVS off len =>
      match end_offset size off len with
      | None => Val PErr
      | Some _ => Val (PRaw off len)
      end
  | XReadFrom off count srclen =>
      (* mod.rs:237-250; volatile_memory.rs:796-804: offset(addr)? (Err iff addr > size), then
         subslice(0, min(len, count)).unwrap(); io.rs:268-283 <&[u8]>::read_volatile: guard of that
         subslice, min(subslice, src) bytes copied *)
      if size <? off then Val PErr
      else let gl := N.min (size - off) count in Val (PGuard off gl true off (N.min gl srclen))
  | XWriteTo off count =>
      (* mod.rs:267-280; volatile_memory.rs:814-822; io.rs:309-326 Vec::write_volatile: guard of the
         subslice, all of it copied *)
      if size <? off then Val PErr
      else let gl := N.min (size - off) count in Val (PGuard off gl false off gl)
  | XSliceCopyFrom off len t k | XSliceCopyTo off len t k =>
      match end_offset size off len with
      | None => Val PErr
      | Some _ =>
          let wr := match op with XSliceCopyFrom _ _ _ _ => true | _ => false end in
          if t =? 1 then Val (PGuard off len wr off (N.min k len))      (* :581-583 / :645-653 fast path *)
          else
            let* cnt := pdiv 655 len t in                                (* :586 / :655 self.size / size_of::<T>() *)
            match isz_mul cnt t with                                     (* get_array_ref(0, count).unwrap() *)
            | None => Panic 658
            | Some nb =>
                let* gl := guard_len m (AArray t cnt) in                 (* VolatileArrayRef::copy_{to,from} :1198 / :1282 *)
                Val (PGuard off gl wr off (N.min k cnt * t))
            end
      end
  | XReadFromFd off count flen =>
      (* mod.rs:237-250; volatile_memory.rs:799-807 as for XReadFrom; the source is a File: io.rs:136-141 ->
         read_volatile_raw_fd io.rs:177-201: `let guard = buf.ptr_guard_mut()` (:182) - the guard of that
         subslice - lives until the function returns, i.e. across the ONE libc::read(fd, dst, buf.len()) (:189),
         which stores min(buf.len(), bytes left in the file) bytes through the guarded pointer *)
      if size <? off then Val PErr
      else let gl := N.min (size - off) count in Val (PGuard off gl true off (N.min gl flen))
  | XWriteToFd off count =>
      (* mod.rs:267-280; volatile_memory.rs:816-824; io.rs:145-151 -> write_volatile_raw_fd io.rs:208-227:
         `let guard = buf.ptr_guard()` (:213) held across ONE libc::write(fd, src, buf.len()) (:220); the sink
         takes all of it *)
      if size <? off then Val PErr
      else let gl := N.min (size - off) count in Val (PGuard off gl false off gl)
  | XReadExactFromFd off count | XWriteAllToFd off count =>
      (* mod.rs:252-265 / :282-295; volatile_memory.rs:809-814 / :826-831: get_slice(addr, count)? (Err iff
         addr + count overflows or exceeds the size), then the DEFAULT read_exact_volatile io.rs:56-78 /
         write_all_volatile io.rs:102-124 of a File: partial_buf = buf.offset(0)?; while !partial_buf.is_empty()
         { read_volatile_raw_fd / write_volatile_raw_fd(partial_buf) ... }.  An empty slice: no call, no guard.
         Otherwise the first call - ONE guard over the whole slice - transfers all count bytes (the file holds at
         least count bytes / the sink takes every write in full) and the loop ends *)
      match end_offset size off count with
      | None => Val PErr
      | Some _ =>
          if count =? 0 then Val PNone
          else Val (PGuard off count (match op with XReadExactFromFd _ _ => true | _ => false end) off count)
      end
  end.

Inductive opres := RErr | RDone (w : option window) | RPanic
  | RFault.   (* unguarded dereference of the null-based address of an on-demand region *)

Definition run_op (m : mode) (o : os) (g : xregion) (op : xop) : list ev * opres :=
  match op_plan m (xr_size g) op with
  | Val PErr => ([], RErr)
  | Val PNone => ([], RDone None)
  | Val (PGuard goff glen wr _ _) =>
      match guarded m o g goff glen wr with
      | (l, Val w) => (l, RDone w)
      | (l, _) => (l, RPanic)
      end
  | Val (PRaw _ tlen) => if on_demand g && (0 <? tlen) then ([], RFault) else ([], RDone None)
  | _ => ([], RPanic)
  end.

(* a history: the operations run one after the other on the same region; a panicking operation is
   caught by the caller (catch_unwind) and the history goes on *)
Fixpoint run_hist (m : mode) (o : os) (g : xregion) (ops : list xop) {struct ops}
  : list (list ev * opres) :=
  match ops with
  | [] => []
  | op :: r => run_op m o g op :: run_hist m o g r
  end.

(* grant windows handed out by the map ioctl and not yet unmapped: (index, count), newest first *)
Fixpoint remove_first (x : N * N) (l : list (N * N)) {struct l} : list (N * N) :=
  match l with
  | [] => []
  | y :: r => if (fst x =? fst y) && (snd x =? snd y) then r else y :: remove_first x r
  end.
Definition live_step (st : list (N * N)) (e : ev) : list (N * N) :=
  match e with
  | EvIoctlMap _ count index true => (index, count) :: st
  | EvIoctlUnmap index count => remove_first (index, count) st
  | _ => st
  end.
Definition live_after (st : list (N * N)) (l : list ev) : list (N * N) := fold_left live_step l st.

(* ================================================================== derivation chains (worker w7)
   Every accessor of src/volatile_memory.rs carries `mmap: Option<&MmapInfo>`: the handle through which
   PtrGuard::new (:332-350) has the on-demand window mapped.  One bit per accessor: was Some(..) passed on.
   Each derivation below transcribes the constructor call of the method: the geometry (offsets are relative
   to the first byte of the region; pointer arithmetic inside one mapping does not overflow) and WHICH value
   it passes as the `mmap` argument. *)
Inductive accx :=
| AxS (off len : N) (h : bool)          (* VolatileSlice  { addr, size, bitmap, mmap }  :393-398 *)
| AxR (off t : N) (h : bool)            (* VolatileRef<T> { addr, bitmap, mmap }        :874-878 *)
| AxA (off t n : N) (h : bool).         (* VolatileArrayRef<T> { addr, nelem, bitmap, phantom, mmap } :1003-1009 *)
Definition acc_h (a : accx) : bool := match a with AxS _ _ h | AxR _ _ h | AxA _ _ _ h => h end.
Definition acc_lo (a : accx) : N := match a with AxS o _ _ | AxR o _ _ | AxA o _ _ _ => o end.
Definition acc_hi (a : accx) : N :=
  match a with AxS o l _ => o + l | AxR o t _ => o + t | AxA o t n _ => o + n * t end.

(* how a chain starts: an accessor handed out by the region *)
Inductive droot :=
| RGetSlice (off cnt : N)      (* MmapRegion::get_slice xen.rs:368-393 (VolatileMemory) and GuestRegionMmap::get_slice
                                  mmap/mod.rs:350-357, which forwards to it *)
| RAsVS                        (* as_volatile_slice: get_slice(0, len) volatile_memory.rs:120-122 / guest_memory.rs:268-270 *)
| RGetRef (off t : N)          (* VolatileMemory::get_ref::<T> on the region :124-147 *)
| RGetArr (off t n : N).       (* VolatileMemory::get_array_ref::<T> on the region :151-187 *)
Inductive dstep :=
| DSubslice (o c : N) | DOffset (o : N) | DSplitLo (mid : N) | DSplitHi (mid : N)
| DGetSlice (o c : N)          (* VolatileMemory::get_slice on a VolatileSlice :853-855 = subslice *)
| DGetRef (o t : N) | DGetArr (o t n : N) | DAsVS
| DIntoArr                     (* From<VolatileSlice> for VolatileArrayRef<u8> :1302-1308 *)
| DClone                       (* #[derive(Clone, Copy)]: field by field *)
| DToSlice | DRefAt (i : N).

(* Val (Some a) accessor obtained, Val None the method returned Err (or does not exist on this accessor kind),
   Panic an assertion of the method *)
Definition dval := outcome (option accx).

(* subslice :492-507: compute_end_offset(offset, count)?; with_bitmap(addr+offset, count, .., self.mmap) *)
Definition d_subslice (off len : N) (h : bool) (o c : N) : dval :=
  match end_offset len o c with
  | None => Val None
  | Some _ => Val (Some (AxS (off + o) c h))
  end.
(* get_ref :124-147: get_slice(offset, size_of::<T>())?; with_bitmap(slice.addr, slice.bitmap, slice.mmap) *)
Definition d_ref_of (s : dval) (t : N) : dval :=
  match s with
  | Val (Some (AxS so sl sh)) => let* _ := passert 128 (sl =? t) in Val (Some (AxR so t sh))
  | Val (Some _) => Panic 128
  | r => r
  end.
(* get_array_ref :151-187: nbytes = isize(n) * size?; get_slice(offset, nbytes)?;
   with_bitmap(slice.addr, n, slice.bitmap, slice.mmap) *)
Definition d_arr_of (get : N -> dval) (t n : N) : dval :=
  match isz_mul n t with
  | None => Val None
  | Some nb =>
      match get nb with
      | Val (Some (AxS so sl sh)) => let* _ := passert 168 (sl =? nb) in Val (Some (AxA so t n sh))
      | Val (Some _) => Panic 168
      | r => r
      end
  end.

(* the region's own get_slice xen.rs:368-393: compute_end_offset?; mmap_info = None if mmap_in_advance else
   Some(&self.mmap); with_bitmap(as_ptr()+offset, count, .., mmap_info) *)
Definition r_get_slice (g : xregion) (off cnt : N) : dval :=
  match end_offset (xr_size g) off cnt with
  | None => Val None
  | Some _ => Val (Some (AxS off cnt (on_demand g)))
  end.

Definition d_root (m : mode) (g : xregion) (r : droot) : dval :=
  match r with
  | RGetSlice off cnt => r_get_slice g off cnt
  | RAsVS => r_get_slice g 0 (xr_size g)
  | RGetRef off t => d_ref_of (r_get_slice g off t) t
  | RGetArr off t n => d_arr_of (fun nb => r_get_slice g off nb) t n
  end.

Definition d_step (m : mode) (a : accx) (s : dstep) : dval :=
  match a, s with
  | AxS off len h, DSubslice o c => d_subslice off len h o c
  | AxS off len h, DGetSlice o c => d_subslice off len h o c                   (* :853-855 *)
  | AxS off len h, DOffset o =>                                                  (* :513-536 *)
      (* new_size = size.checked_sub(count)?; with_bitmap(addr+count, new_size, .., self.mmap) *)
      if len <? o then Val None else Val (Some (AxS (off + o) (len - o) h))
  | AxS off len h, DSplitHi mid =>                                               (* :479-487 end = self.offset(mid)? *)
      if len <? mid then Val None else Val (Some (AxS (off + mid) (len - mid) h))
  | AxS off len h, DSplitLo mid =>                                               (* :479-487 start = with_bitmap(self.addr, mid, .., self.mmap) *)
      if len <? mid then Val None else Val (Some (AxS off mid h))
  | AxS off len h, DGetRef o t => d_ref_of (d_subslice off len h o t) t
  | AxS off len h, DGetArr o t n => d_arr_of (fun nb => d_subslice off len h o nb) t n
  | AxS off len h, DAsVS =>                                                      (* :120-122 get_slice(0, len).unwrap() *)
      match d_subslice off len h 0 len with Val None => Panic 121 | r => r end
  | AxS off len h, DIntoArr => Val (Some (AxA off 1 len h))                      (* :1302-1308 with_bitmap(slice.addr, slice.len(), slice.bitmap, slice.mmap) *)
  | AxR off t h, DToSlice => Val (Some (AxS off t h))                            (* :973-984 with_bitmap(addr, size_of::<T>(), .., self.mmap) *)
  | AxA off t n h, DToSlice =>                                                   (* :1116-1128 with_bitmap(addr, nelem * element_size, .., self.mmap) *)
      let* l := pmul m 1122 n t in Val (Some (AxS off l h))
  | AxA off t n h, DRefAt i =>                                                   (* :1134-1143 *)
      let* _ := passert 1135 (i <? n) in
      let* bo := pmul m 1140 t i in
      Val (Some (AxR (off + bo) t h))                                            (* with_bitmap(ptr, .., self.mmap) *)
  | _, DClone => Val (Some a)
  | _, _ => Val None
  end.

Fixpoint d_steps (m : mode) (a : accx) (l : list dstep) {struct l} : dval :=
  match l with
  | [] => Val (Some a)
  | s :: r => match d_step m a s with
              | Val (Some a') => d_steps m a' r
              | x => x
              end
  end.
Definition d_chain (m : mode) (g : xregion) (r : droot) (l : list dstep) : dval :=
  match d_root m g r with
  | Val (Some a) => d_steps m a l
  | x => x
  end.

(* the guarded access that ends a chain *)
Inductive dfinal :=
| FGuard (w : bool)       (* ptr_guard() / ptr_guard_mut() of the accessor, every byte of guard.len() accessed through it *)
| FBytes (w : bool)       (* slice: Bytes::read / write of a len-byte buffer at offset 0 (:696-735): guard of the whole slice;
                             typed reference: load() / store() (:935-971): guard of size_of::<T>() bytes *)
| FElem (i : N) (w : bool). (* array: load(i) / store(i, v) (:1147-1159) = ref_at(i).load()/store() *)

(* (guard offset, guard length, write) - the bytes accessed are exactly those of the guard *)
Definition fin_plan (m : mode) (a : accx) (f : dfinal) : outcome (option (N * N * bool)) :=
  match a, f with
  | AxS off len _, FGuard w | AxS off len _, FBytes w => Val (Some (off, len, w))     (* :439-446 self.len(); an empty buffer: no guard = an empty guard *)
  | AxR off t _, FGuard w | AxR off t _, FBytes w => Val (Some (off, t, w))           (* :921-928 *)
  | AxA off t n _, FGuard w => let* l := guard_len m (AArray t n) in Val (Some (off, l, w))   (* :1102-1109 *)
  | AxA off t n _, FElem i w =>
      let* _ := passert 1135 (i <? n) in
      let* bo := pmul m 1140 t i in Val (Some (off + bo, t, w))
  | _, _ => Val None
  end.

(* the operation a whole chain amounts to, in terms of the operations of the history model: a guard over
   [goff, goff+glen) when the final accessor carries the handle (PtrGuard::new(Some(..)) -> MmapXen::mmap ->
   window), the bare dereference of the stored address when it does not (PtrGuard::new(None) ->
   MmapXenSlice::raw xen.rs:920-928); a refused derivation: an operation that answers Err *)
Definition err_xop (g : xregion) : xop := XSliceGuard (xr_size g + 1) 0 false.
Definition chain_op (m : mode) (g : xregion) (r : droot) (l : list dstep) (f : dfinal) : outcome xop :=
  match d_chain m g r l with
  | Val (Some a) =>
      match fin_plan m a f with
      | Val (Some (goff, glen, w)) => Val (if acc_h a then XSliceGuard goff glen w else XCopyToVS goff glen)
      | Val None => Val (err_xop g)
      | Panic s => Panic s
      | OutOfFuel => OutOfFuel
      end
  | Val None => Val (err_xop g)
  | Panic s => Panic s
  | OutOfFuel => OutOfFuel
  end.

(* ================================================================== GntDevMapGrantRef::new xen.rs:732-745 (worker w7)
   for (i, r) in refs.iter_mut().enumerate().take(count) { r.domid = domid; r.reference = base + i as u32; }
   (u32 arithmetic: `i as u32` truncates, `+` panics on overflow in a debug build and wraps in a release build) *)
Definition W32 : N := 4294967296.
Fixpoint gnt_refs_new (m : mode) (domid base i : N) (count : nat) {struct count} : outcome (list (N * N)) :=
  match count with
  | O => Val []
  | S k =>
      let s := base + i mod W32 in
      let* r := (if s <? W32 then Val s else match m with Debug => Panic 740 | Release => Val (s mod W32) end) in
      let* rest := gnt_refs_new m domid base (i + 1) k in
      Val ((domid, r) :: rest)
  end.

(* ------------------------------------------------------------------------------------------
   The constructors an ordinary caller of a Xen build reaches (added for C15 / C10, 0.7.w5).

   xen.rs:110-126  MmapRange::new_unix(size, file_offset, addr)
       let flags = Some(match file_offset {
           Some(_) => libc::MAP_NORESERVE | libc::MAP_SHARED,
           None => libc::MAP_ANONYMOUS | libc::MAP_PRIVATE });
       Self { size, file_offset, prot: None, flags, hugetlbfs: None, addr,
              mmap_flags: MmapXenFlags::UNIX.bits(), mmap_data: 0 } *)
Definition new_unix (size : N) (file : option N) (addr : N) : xrange :=
  {| x_size := size; x_file := file; x_prot := None;
     x_flags := Some (match file with
                      | Some _ => N.lor MAP_NORESERVE MAP_SHARED                  (* :112 *)
                      | None => N.lor MAP_ANONYMOUS MAP_PRIVATE end);              (* :113 *)
     x_addr := addr; x_mflags := 0 (* UNIX :122 *); x_mdata := 0 (* :123 *) |}.

(* mod.rs:154-169 (Xen build)  GuestRegionMmap::from_range(addr, size, file)
       let range = MmapRange::new_unix(size, file, addr);
       let region = MmapRegion::from_range(range).map_err(Error::MmapRegion)?;
       Self::new(region, addr) *)
Definition xen_guest_from_range (m : mode) (o : os) (base size : N) (file : option N)
  : outcome (res xregion * list ev) :=
  let* (r, l) := xen_from_range m o (new_unix size file base) in                   (* :164-166 *)
  match r with
  | Err e => Val (Err e, l)
  | Ok g => let* (r2, l2) := xen_guest_region_new m o g base in Val (r2, l ++ l2)  (* :167 *)
  end.

(* the hugetlbfs label: MmapRange.hugetlbfs is None after new / new_unix (:102, :121), Some b after
   set_hugetlbfs(b) (:139-141); MmapRegion::from_range hands it on unchanged (:274 `hugetlbfs: range.hugetlbfs`)
   and is_hugetlbfs() returns it (:341-343).  It takes part in no decision of from_range (it is not a field of
   xrange: nothing above can look at it). *)
Definition xen_region_huge (range_huge : option bool) : option bool := range_huge.  (* :274 *)

(* ------------------------------------------------------------------------------------------
   The privcmd request of a foreign range (added for C15, 0.7.w9).

   xen.rs:627-641  MmapXenForeign::mmap_ioctl(&self, count)
       let base = self.guest_base.0 / page_size();
       let mut pfn = Vec::with_capacity(count);
       for i in 0..count { pfn.push(base + i as u64); }
       ...
       let map = PrivCmdMmapBatchV2 { num: count as u32, domid: self.domid as u16, addr: self.addr() as *mut c_void,
                                      arr: pfn.as_ptr(), err: err.as_mut_ptr() };
   with self.domid = range.mmap_data (:617), self.guest_base = range.addr (:618), count = pages(range.size).0 (:605).
   `base + i as u64`: base <= 2^64 / page_size and i < count <= 2^64 / page_size + 1, the sum stays below 2^64 for
   every page size >= 4: the overflow branch of `+` cannot be reached, plain addition. *)
Fixpoint foreign_pfns (base i : N) (count : nat) {struct count} : list N :=
  match count with
  | O => []
  | S k => (base + i) :: foreign_pfns base (i + 1) k                               (* :631-633 *)
  end.
(* (domid as u16, the frame list) *)
Definition foreign_req (ps : N) (r : xrange) (count : N) : N * list N :=
  (x_mdata r mod 65536, foreign_pfns (x_addr r / ps) 0 (N.to_nat count)).           (* :628, :638 *)
