(* The DOCUMENTED semantics of std::io::Read::{read, read_exact} and Write::{write, write_all} for
   the streams vm-memory provides adapters for.  This is the oracle of C13 ("like std::io"); it is
   written from the std documentation, not from vm-memory, and it is tied to the installed std by
   the twin-stream runs of the C13 harness.

     &[u8]           "Read is implemented for &[u8] by copying from the slice.  Note that reading
                      updates the slice to point to the yet unread part."
     &mut [u8]       "Write is implemented for &mut [u8] by copying into the slice, overwriting its
                      data.  Note that writing updates the slice to point to the yet unwritten part.
                      ... If the number of bytes to be written exceeds the size of the slice, write
                      operations will return short writes: ultimately, Ok(0); in this situation,
                      write_all returns an error of kind ErrorKind::WriteZero."
     Vec<u8>         "Write is implemented for Vec<u8> by appending to the vector."
     Cursor<T>       reads/writes at min(position, len) and advances the position by the count
     File / fd       one read(2) / write(2) per read / write call
     read_exact      "reads the exact number of bytes required to fill buf ... errors of kind
                      Interrupted are ignored ... If this function encounters an end of file before
                      completely filling the buffer, it returns an error of the kind UnexpectedEof.
                      The contents of buf are unspecified in this case."  (position: unspecified)
     write_all       "continuously calls write until there is no more data to be written or an error
                      of non-Interrupted kind is returned ... " a write returning Ok(0) -> WriteZero.

   A stream state that std leaves unspecified (after a failed exact transfer) is [None]; so is the
   state after a single read / write that returned an OS error (only the message queue does: EAGAIN
   on an empty queue) - the comparison with the twin stops there, the adapter's later operations are
   still judged from its own observed state. *)
From VM Require Import Prelude.MachInt Prelude.Outcome Prelude.C1314List Impl.Io.

Inductive skind := KSliceR | KSliceW | KVecW | KCurR | KCurW | KFile | KQueue | KMsgQ.
Inductive op13 :=
  | ORead (pre : list N)        (* read into a buffer currently holding [pre] *)
  | OReadExact (pre : list N)
  | OWrite (d : list N)         (* write the bytes [d] *)
  | OWriteAll (d : list N)
  | OSetPos (p : N).            (* Cursor::set_position / lseek(SEEK_SET); no-op on other streams *)

(* result code shared by every observation: (kind, count) *)
Definition rc_ioerr (e : ioerr) : N * N :=
  match e with EUnexpectedEof => (2, 0) | EWriteZero => (3, 0) | EInterrupted => (4, 0) | EOther => (5, 0) end.
Definition rc_verr (e : verr) : N * N :=
  match e with VIo e => rc_ioerr e | VOutOfBounds | VOverflow => (6, 0) end.
Definition rc_n (r : res N) : N * N := match r with Ok n => (0, n) | Err e => rc_verr e end.
Definition rc_unit (r : res unit) : N * N := match r with Ok _ => (1, 0) | Err e => rc_verr e end.

Definition with_data (st : sstate) (d : list N) (p : N) : sstate :=
  {| s_data := d; s_pos := p; s_out := s_out st |}.

(* ---- &[u8] *)
Definition std_slice_read (st : sstate) (len : N) : sstate * list N * res N :=
  let bs := ntake len (slice_rem st) in (set_pos st (s_pos st + nlen bs), bs, Ok (nlen bs)).
Definition std_slice_read_exact (st : sstate) (len : N) : option sstate * list N * res unit :=
  if len <=? nlen (slice_rem st)
  then (Some (set_pos st (s_pos st + len)), ntake len (slice_rem st), Ok tt)
  else (None, [], Err (VIo EUnexpectedEof)).
(* ---- &mut [u8] *)
Definition std_mslice_write (st : sstate) (d : list N) : sstate * res N :=
  let bs := ntake (nlen (slice_rem st)) d in
  (with_data st (mem_write (s_data st) (s_pos st) bs) (s_pos st + nlen bs), Ok (nlen bs)).
Definition std_mslice_write_all (st : sstate) (d : list N) : option sstate * res unit :=
  if nlen d <=? nlen (slice_rem st)
  then (Some (with_data st (mem_write (s_data st) (s_pos st) d) (s_pos st + nlen d)), Ok tt)
  else (None, Err (VIo EWriteZero)).
(* ---- Vec<u8> *)
Definition std_vec_write (st : sstate) (d : list N) : sstate * res N :=
  (with_data st (s_data st ++ d) (s_pos st), Ok (nlen d)).
(* ---- Cursor<T: AsRef<[u8]>> *)
Definition cur_start (st : sstate) : N := N.min (s_pos st) (nlen (s_data st)).
Definition std_cursor_read (st : sstate) (len : N) : sstate * list N * res N :=
  let bs := ntake len (ndrop (cur_start st) (s_data st)) in
  (set_pos st (s_pos st + nlen bs), bs, Ok (nlen bs)).
Definition std_cursor_read_exact (st : sstate) (len : N) : option sstate * list N * res unit :=
  if len <=? nlen (s_data st) - cur_start st
  then (Some (set_pos st (s_pos st + len)), ntake len (ndrop (cur_start st) (s_data st)), Ok tt)
  else (None, [], Err (VIo EUnexpectedEof)).
(* ---- Cursor<&mut [u8]> *)
Definition std_cursor_write (st : sstate) (d : list N) : sstate * res N :=
  let bs := ntake (nlen (s_data st) - cur_start st) d in
  (with_data st (mem_write (s_data st) (cur_start st) bs) (s_pos st + nlen bs), Ok (nlen bs)).
Definition std_cursor_write_all (st : sstate) (d : list N) : option sstate * res unit :=
  if nlen d <=? nlen (s_data st) - cur_start st
  then (Some (with_data st (mem_write (s_data st) (cur_start st) d) (s_pos st + nlen d)), Ok tt)
  else (None, Err (VIo EWriteZero)).

(* ---- file descriptors: one system call per read / write; the provided read_exact / write_all *)
Section StdFd.
  Variable F : Type.
  Variable os_read : F -> N -> F * os_rres.
  Variable os_write : F -> list N -> F * os_wres.

  Definition std_fd_read (f : F) (len : N) : F * list N * res N :=
    let '(f', r) := os_read f len in
    match r with OsData bs => (f', bs, Ok (nlen bs)) | OsRErr e => (f', [], Err (VIo e)) end.
  Definition std_fd_write (f : F) (d : list N) : F * res N :=
    let '(f', r) := os_write f d in
    match r with OsCount n => (f', Ok n) | OsWErr e => (f', Err (VIo e)) end.

  Fixpoint std_fd_read_exact (fuel : nat) (f : F) (want : N) (acc : list N) {struct fuel}
    : outcome (option F * list N * res unit) :=
    match fuel with
    | O => OutOfFuel
    | S k =>
        if want =? 0 then Val (Some f, acc, Ok tt) else
        let '(f', r) := os_read f want in
        match r with
        | OsRErr EInterrupted => std_fd_read_exact k f' want acc
        | OsRErr e => Val (None, [], Err (VIo e))
        | OsData bs =>
            if nlen bs =? 0 then Val (None, [], Err (VIo EUnexpectedEof))
            else std_fd_read_exact k f' (want - nlen bs) (acc ++ bs)
        end
    end.
  Fixpoint std_fd_write_all (fuel : nat) (f : F) (d : list N) {struct fuel} : outcome (option F * res unit) :=
    match fuel with
    | O => OutOfFuel
    | S k =>
        if nlen d =? 0 then Val (Some f, Ok tt) else
        let '(f', r) := os_write f d in
        match r with
        | OsWErr EInterrupted => std_fd_write_all k f' d
        | OsWErr e => Val (None, Err (VIo e))
        | OsCount n =>
            if n =? 0 then Val (None, Err (VIo EWriteZero))
            else std_fd_write_all k f' (ndrop n d)
        end
    end.
End StdFd.
Arguments std_fd_read {F}. Arguments std_fd_write {F}.
Arguments std_fd_read_exact {F}. Arguments std_fd_write_all {F}.

Definition os_read_of (k : skind) : sstate -> N -> sstate * os_rres :=
  match k with KQueue => queue_read | KMsgQ => msgq_read | _ => file_read end.
Definition os_write_of (k : skind) : sstate -> list N -> sstate * os_wres :=
  match k with KQueue => queue_write | KMsgQ => msgq_write | _ => file_write end.

(* which operations a stream kind offers *)
Definition op_allowed (k : skind) (o : op13) : bool :=
  match o, k with
  | OSetPos _, _ => true
  | (ORead _ | OReadExact _), (KSliceR | KCurR | KFile | KQueue | KMsgQ) => true
  | (OWrite _ | OWriteAll _), (KSliceW | KVecW | KCurW | KFile | KQueue | KMsgQ) => true
  | _, _ => false
  end.
Definition seekable (k : skind) : bool :=
  match k with KCurR | KCurW | KFile => true | _ => false end.

(* the stream state is only compared after a successful call *)
Definition keep_if (rc : N * N) (st : sstate) : option sstate :=
  if (fst rc =? 0) || (fst rc =? 1) || (fst rc =? 9) then Some st else None.

(* one std operation: (stream afterwards | unspecified, bytes put at the start of the buffer, result) *)
Definition std_step (k : skind) (st : sstate) (o : op13) : outcome (option sstate * list N * (N * N)) :=
  match o with
  | OSetPos p => Val (Some (if seekable k then set_pos st p else st), [], (9, 0))
  | ORead pre =>
      let len := nlen pre in
      let '(st', bs, r) :=
        match k with
        | KSliceR => std_slice_read st len
        | KCurR => std_cursor_read st len
        | _ => std_fd_read (os_read_of k) st len
        end in
      Val (keep_if (rc_n r) st', bs, rc_n r)
  | OReadExact pre =>
      let len := nlen pre in
      match k with
      | KSliceR => let '(o', bs, r) := std_slice_read_exact st len in Val (o', bs, rc_unit r)
      | KCurR => let '(o', bs, r) := std_cursor_read_exact st len in Val (o', bs, rc_unit r)
      | _ => let* x := std_fd_read_exact (os_read_of k) (N.to_nat len + 2) st len [] in
             let '(o', bs, r) := x in Val (o', bs, rc_unit r)
      end
  | OWrite d =>
      let '(st', r) :=
        match k with
        | KSliceW => std_mslice_write st d
        | KVecW => std_vec_write st d
        | KCurW => std_cursor_write st d
        | _ => std_fd_write (os_write_of k) st d
        end in
      Val (keep_if (rc_n r) st', [], rc_n r)
  | OWriteAll d =>
      match k with
      | KSliceW => let '(o', r) := std_mslice_write_all st d in Val (o', [], rc_unit r)
      | KVecW => let '(st', _) := std_vec_write st d in Val (Some st', [], (1, 0))
      | KCurW => let '(o', r) := std_cursor_write_all st d in Val (o', [], rc_unit r)
      | _ => let* x := std_fd_write_all (os_write_of k) (N.to_nat (nlen d) + 2) st d in
             let '(o', r) := x in Val (o', [], rc_unit r)
      end
  end.
