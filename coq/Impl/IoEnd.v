(* The crate's OWN stream endpoints behind the four stream entry points
     read_volatile_from / read_exact_volatile_from / write_volatile_to / write_all_volatile_to
   of VolatileSlice (volatile_memory.rs:799-831), GuestRegionMmap (mmap/mod.rs:237-294) and
   Bytes<GuestAddress> for T: GuestMemory (guest_memory.rs:678-730).

   Impl/IoGuest.v transcribes these entry points over ONE `call` (the stream's read_volatile /
   write_volatile) and the DEFAULT read_exact_volatile / write_all_volatile loops (io.rs:56-78,
   :102-124): right for a third-party stream that only implements the required method.  The adapters
   of src/io.rs OVERRIDE the exact methods:
       &[u8]            read_volatile :269   read_exact_volatile :291 (no loop: length test, then one read)
       &mut [u8]        write_volatile :230  write_all_volatile :252  (no loop: one write, then length test)
       Vec<u8>          write_volatile :310  write_all_volatile = default loop
       Cursor<T>        read_volatile :344   read_exact_volatile :355 (delegates to the &[u8] form)
       Cursor<&mut [u8]> write_volatile :369 write_all_volatile = default loop
       File (raw fd)    read_volatile :136 / write_volatile :146, both exact forms = default loops
   so the entry points are transcribed here once more with the stream's OWN exact method as a parameter
   ([exT]); with the default loop as that parameter they are IoGuest's definitions verbatim
   (vs_exact_with_default below, by reflexivity).  The adapters themselves are Impl/Io.v (verified
   against std::io and the real crate by the C13 package). *)
From VM Require Import Prelude.MachInt Prelude.Outcome Prelude.C1314List Impl.Io Impl.IoGuest.

(* ------------------------------------------------------------------ endpoint kinds *)
(* readers: &[u8] | Cursor<&[u8]> = Cursor<&mut [u8]> = Cursor<Vec<u8>> (one impl, T: AsRef<[u8]>) | File *)
Inductive rkind := RSlice | RCursor | RFile.
(* writers: &mut [u8] | Vec<u8> | Cursor<&mut [u8]> | File *)
Inductive wkind := WSlice | WVec | WCursor | WFile.

(* the stream's exact method: read_exact_volatile / write_all_volatile on one buffer *)
Definition exT (S : Type) := S -> list N -> vslice -> outcome ((S * list N) * res unit).

(* ReadVolatile::read_volatile of the endpoint *)
Definition rd_call (md : mode) (k : rkind) : callT sstate :=
  match k with
  | RSlice => slice_read_volatile                            (* io.rs:269 *)
  | RCursor => cursor_read_volatile md                       (* io.rs:344 *)
  | RFile => read_volatile_raw_fd file_read                  (* io.rs:136 -> :177 *)
  end.
(* ReadVolatile::read_exact_volatile of the endpoint ([fuel]: the default loop, File only) *)
Definition rd_exact (md : mode) (fuel : nat) (k : rkind) : exT sstate :=
  match k with
  | RSlice => slice_read_exact_volatile                      (* io.rs:291 *)
  | RCursor => cursor_read_exact_volatile md                 (* io.rs:355 *)
  | RFile => read_exact_volatile fuel (read_volatile_raw_fd file_read)   (* io.rs:56 default *)
  end.
(* WriteVolatile::write_volatile of the endpoint *)
Definition wr_call (md : mode) (k : wkind) : callT sstate :=
  match k with
  | WSlice => mslice_write_volatile                          (* io.rs:230 *)
  | WVec => vec_write_volatile md                            (* io.rs:310 *)
  | WCursor => cursor_write_volatile md                      (* io.rs:369 *)
  | WFile => write_volatile_raw_fd file_write                (* io.rs:146 -> :208 *)
  end.
(* WriteVolatile::write_all_volatile of the endpoint *)
Definition wr_all (md : mode) (fuel : nat) (k : wkind) : exT sstate :=
  match k with
  | WSlice => mslice_write_all_volatile                      (* io.rs:252 *)
  | WVec => write_all_volatile fuel (vec_write_volatile md)  (* io.rs:102 default *)
  | WCursor => write_all_volatile fuel (cursor_write_volatile md)
  | WFile => write_all_volatile fuel (write_volatile_raw_fd file_write)
  end.

(* ------------------------------------------------------------------ the entry points over [exT] *)
Section Own.
  Variable S : Type.

  (* volatile_memory.rs:809-814 read_exact_volatile_from / :826-831 write_all_volatile_to:
       src.read_exact_volatile(&mut self.get_slice(addr, count)?)      dst.write_all_volatile(&self.get_slice(addr, count)?) *)
  Definition vs_exact_with (ex : exT S) (self : vslice) (addr : N) (s : S) (m : list N) (count : N)
    : outcome ((S * list N) * res unit) :=
    match vs_subslice self addr count with
    | Err e => Val ((s, m), Err e)
    | Ok sl => ex s m sl
    end.
  (* mmap/mod.rs:252-264 / :280-294: as_volatile_slice().unwrap().<op>(addr.0 as usize, stream, count).map_err(Into::into) *)
  Definition region_exact_with (ex : exT S) (r : region) (addr : N) (s : S) (m : list N) (count : N)
    : outcome ((S * list N) * gres unit) :=
    omap (fun x => (fst x, map_err (snd x))) (vs_exact_with ex (region_slice r) addr s m count).
  (* guest_memory.rs:706-715 write_volatile_to:
       try_access(count, addr, |_, len, caddr, region| region.write_all_volatile_to(caddr, dst, len).map(|()| len)) *)
  Definition gm_write_volatile_to_with (md : mode) (fuel : nat) (ex : exT S) (L : list region) (addr : N)
    (s : S) (m : list N) (count : N) : outcome ((S * list N) * gres N) :=
    try_access md fuel L count addr
      (fun _ len caddr region s m =>
         omap (fun x => (fst x, match snd x with GOk _ => GOk len | GErr e => GErr e end))
              (region_exact_with ex region caddr s m len)) addr 0 s m.
  (* guest_memory.rs:717-730 write_all_volatile_to *)
  Definition gm_write_all_volatile_to_with md fuel ex L addr s m count :=
    gm_exact_of (gm_write_volatile_to_with md fuel ex L addr s m count) count.
End Own.
Arguments vs_exact_with {S}. Arguments region_exact_with {S}.
Arguments gm_write_volatile_to_with {S}. Arguments gm_write_all_volatile_to_with {S}.

(* with the default loop as the exact method these ARE IoGuest's transcriptions *)
Lemma vs_exact_with_default {S} zero_err fuel (call : callT S) self addr s m count :
  vs_exact_with (exact_volatile zero_err fuel call) self addr s m count = vs_exact zero_err fuel call self addr s m count.
Proof. reflexivity. Qed.
Lemma region_exact_with_default {S} zero_err fuel (call : callT S) r addr s m count :
  region_exact_with (exact_volatile zero_err fuel call) r addr s m count = region_exact zero_err fuel call r addr s m count.
Proof. reflexivity. Qed.
Lemma gm_write_volatile_to_with_default {S} md fuel (call : callT S) L addr s m count :
  gm_write_volatile_to_with md fuel (exact_volatile EWriteZero fuel call) L addr s m count =
  gm_write_volatile_to md fuel call L addr s m count.
Proof. reflexivity. Qed.

(* ------------------------------------------------------------------ one transfer of a case
   target: a VolatileSlice window of the host byte list, a region, or a list of regions (as in C14) *)
Inductive otarget := OSlice (soff slen : N) | ORegion (r : region) | OGuest (L : list region).
(* bytes of guest memory behind a target: the bound on what one transfer can move *)
Definition tbytes (t : otarget) : N :=
  match t with OSlice _ slen => slen | ORegion r => g_len r | OGuest L => fold_right (fun r acc => g_len r + acc) 0 L end.
Inductive oxfer := XRdUpTo (k : rkind) | XRdExact (k : rkind) | XWrUpTo (k : wkind) | XWrAll (k : wkind).

(* result class of a transfer: 0 a success value, 1 an error value *)
Definition ocls_res {A} (r : res A) : N := match r with Ok _ => 0 | Err _ => 1 end.
Definition ocls_gres {A} (r : gres A) : N := match r with GOk _ => 0 | GErr _ => 1 end.

Definition own_exec (md : mode) (fuel : nat) (t : otarget) (x : oxfer) (s : sstate) (m : list N) (addr count : N)
  : outcome ((sstate * list N) * N) :=
  match t with
  | OSlice soff slen =>
      let self := {| vs_addr := HBASE + soff; vs_off := soff; vs_len := slen |} in
      match x with
      | XRdUpTo k => omap (fun y => (fst y, ocls_res (snd y))) (vs_upto fuel (rd_call md k) self addr s m count)
      | XRdExact k => omap (fun y => (fst y, ocls_res (snd y))) (vs_exact_with (rd_exact md fuel k) self addr s m count)
      | XWrUpTo k => omap (fun y => (fst y, ocls_res (snd y))) (vs_upto fuel (wr_call md k) self addr s m count)
      | XWrAll k => omap (fun y => (fst y, ocls_res (snd y))) (vs_exact_with (wr_all md fuel k) self addr s m count)
      end
  | ORegion r =>
      match x with
      | XRdUpTo k => omap (fun y => (fst y, ocls_gres (snd y))) (region_upto fuel (rd_call md k) r addr s m count)
      | XRdExact k => omap (fun y => (fst y, ocls_gres (snd y))) (region_exact_with (rd_exact md fuel k) r addr s m count)
      | XWrUpTo k => omap (fun y => (fst y, ocls_gres (snd y))) (region_upto fuel (wr_call md k) r addr s m count)
      | XWrAll k => omap (fun y => (fst y, ocls_gres (snd y))) (region_exact_with (wr_all md fuel k) r addr s m count)
      end
  | OGuest L =>
      match x with
      | XRdUpTo k => omap (fun y => (fst y, ocls_gres (snd y))) (gm_read_volatile_from md fuel (rd_call md k) L addr s m count)
      | XRdExact k => omap (fun y => (fst y, ocls_gres (snd y))) (gm_read_exact_volatile_from md fuel (rd_call md k) L addr s m count)
      | XWrUpTo k => omap (fun y => (fst y, ocls_gres (snd y))) (gm_write_volatile_to_with md fuel (wr_all md fuel k) L addr s m count)
      | XWrAll k => omap (fun y => (fst y, ocls_gres (snd y))) (gm_write_all_volatile_to_with md fuel (wr_all md fuel k) L addr s m count)
      end
  end.
