(* src/endian.rs: endian_type!($old_type, $new_type, $to_new, $from_new) instantiated for
   Le16 Le32 Le64 LeSize (to_le/from_le) and Be16 Be32 Be64 BeSize (to_be/from_be).
   Host: little-endian x86-64 (stated in the trusted base), so std's to_le/from_le are the
   identity and to_be/from_be are swap_bytes. *)
From VM Require Import Prelude.MachInt Prelude.Bytes.

Inductive endian := LE | BE.
Record ety := { e_end : endian; e_size : nat }.      (* e_size in bytes: 2, 4, 8 *)

(* uN::swap_bytes *)
Definition swap_bytes (n : nat) (v : N) : N := dec_le (rev (enc_le n v)).
(* $old_type::$to_new / $from_new on a little-endian host *)
Definition to_new (t : ety) (v : N) : N := match e_end t with LE => v | BE => swap_bytes (e_size t) v end.
Definition from_new (t : ety) (v : N) : N := match e_end t with LE => v | BE => swap_bytes (e_size t) v end.

(* impl From<$old_type> for $new_type { $new_type($old_type::$to_new(v)) }   - the stored field *)
Definition e_from (t : ety) (v : N) : N := to_new t v.
(* pub fn to_native(self) -> $old_type { $old_type::$from_new(self.0) } *)
Definition e_to_native (t : ety) (stored : N) : N := from_new t stored.
(* impl PartialEq<$old_type> for $new_type { self.0 == $old_type::$to_new( *other) } *)
Definition e_eq_new_old (t : ety) (stored other : N) : bool := stored =? to_new t other.
(* impl PartialEq<$new_type> for $old_type { $old_type::$to_new(other.0) == self (deref) } *)
Definition e_eq_old_new (t : ety) (self other_stored : N) : bool := to_new t other_stored =? self.
(* ByteValued::as_slice of the #[repr(transparent)] wrapper on the LE host: native bytes of the field *)
Definition e_bytes (t : ety) (stored : N) : list N := enc_le (e_size t) stored.
