(* src/io.rs: retry_eintr!, the default read_exact_volatile / write_all_volatile loops, and the
   ReadVolatile / WriteVolatile adapters for &[u8], &mut [u8], Vec<u8>, Cursor<T>, raw fds.
   Every function is a transcription of the Rust code (line numbers of /repo/src/io.rs).

   Host memory is a byte list [m : list N]; a VolatileSlice is a window [vslice] into it
   (vs_off / vs_len index the list, vs_addr is the host address used only by the overflow
   check of VolatileSlice::offset).  A stream call receives the memory and the window and
   returns the new stream state, the new memory and the Result. *)
From VM Require Import Prelude.MachInt Prelude.Outcome Prelude.C1314List.

(* std::io::ErrorKind classes that matter to the code; VolatileMemoryError classes *)
Inductive ioerr := EInterrupted | EUnexpectedEof | EWriteZero | EOther.
Inductive verr := VIo (e : ioerr) | VOutOfBounds | VOverflow.
Inductive res (A : Type) := Ok (a : A) | Err (e : verr).
Arguments Ok {A}. Arguments Err {A}.

Record vslice := { vs_addr : N; vs_off : N; vs_len : N }.

(* volatile_memory.rs:514-536  VolatileSlice::offset(count) *)
Definition vs_offset (v : vslice) (count : N) : res vslice :=
  match checked_add (vs_addr v) count with
  | None => Err VOverflow                                        (* :517 Error::Overflow *)
  | Some new_addr =>
      match checked_sub (vs_len v) count with
      | None => Err VOutOfBounds                                 (* :524 Error::OutOfBounds *)
      | Some new_size =>
          Ok {| vs_addr := new_addr; vs_off := vs_off v + count; vs_len := new_size |}
      end
  end.
(* volatile_memory.rs:494-507 subslice -> :291 compute_end_offset -> :93 compute_offset *)
Definition vs_subslice (v : vslice) (offset count : N) : res vslice :=
  match checked_add offset count with
  | None => Err VOverflow
  | Some mem_end =>
      if vs_len v <? mem_end then Err VOutOfBounds
      else Ok {| vs_addr := vs_addr v + offset; vs_off := vs_off v + offset; vs_len := count |}
  end.

(* copy_slice_impl::copy_to_volatile_slice(buf, src, total): stores the first [total] bytes of
   src at the start of the window, returns total.  copy_from_volatile_slice(dst, buf, total):
   loads the first [total] bytes of the window. (volatile_memory.rs copy_slice_impl) *)
Definition copy_to_volatile_slice (m : list N) (v : vslice) (src : list N) (total : N) : list N * N :=
  (mem_write m (vs_off v) (ntake total src), total).
Definition copy_from_volatile_slice (m : list N) (v : vslice) (total : N) : list N * N :=
  (mem_read m (vs_off v) total, total).

(* ------------------------------------------------------------------ generic loops *)
Section Loops.
  Variable S : Type.
  (* one read_volatile / write_volatile call on the stream *)
  Definition callT := S -> list N -> vslice -> outcome ((S * list N) * res N).

  (* io.rs:17-31 retry_eintr!: loop { let r = call; if Err(IOError(Interrupted)) continue; break r } *)
  Fixpoint retry_eintr (fuel : nat) (call : callT) (s : S) (m : list N) (v : vslice) {struct fuel}
    : outcome ((S * list N) * res N) :=
    match fuel with
    | O => OutOfFuel
    | Datatypes.S f =>
        let* x := call s m v in
        let '((s', m'), r) := x in
        match r with
        | Err (VIo EInterrupted) => retry_eintr f call s' m' v     (* :24 continue *)
        | _ => Val ((s', m'), r)                                    (* :28 break r *)
        end
    end.

  (* io.rs:64-75 / :110-121  while !partial_buf.is_empty() { match retry_eintr!(call(partial_buf)) {
       Ok(0) => return Err(zero_err), Ok(n) => partial_buf = partial_buf.offset(n)?, Err(e) => return Err(e) } }
     [fi] is the fuel handed to every inner retry loop *)
  Fixpoint exact_loop (zero_err : ioerr) (fi fuel : nat) (call : callT) (s : S) (m : list N) (pb : vslice)
    {struct fuel} : outcome ((S * list N) * res unit) :=
    match fuel with
    | O => OutOfFuel
    | Datatypes.S f =>
        if vs_len pb =? 0 then Val ((s, m), Ok tt)                  (* :77 / :123 Ok(()) *)
        else
          let* x := retry_eintr fi call s m pb in
          let '((s', m'), r) := x in
          match r with
          | Ok n =>
              if n =? 0 then Val ((s', m'), Err (VIo zero_err))      (* :66 / :112 *)
              else match vs_offset pb n with                         (* :72 / :118 *)
                   | Ok pb' => exact_loop zero_err fi f call s' m' pb'
                   | Err e => Val ((s', m'), Err e)
                   end
          | Err e => Val ((s', m'), Err e)                           (* :73 / :119 *)
          end
    end.

  (* io.rs:56-78 default read_exact_volatile, :102-124 default write_all_volatile:
     let mut partial_buf = buf.offset(0)?; loop *)
  Definition exact_volatile (zero_err : ioerr) (fuel : nat) (call : callT) (s : S) (m : list N) (buf : vslice)
    : outcome ((S * list N) * res unit) :=
    match vs_offset buf 0 with
    | Err e => Val ((s, m), Err e)
    | Ok pb => exact_loop zero_err fuel fuel call s m pb
    end.
  Definition read_exact_volatile := exact_volatile EUnexpectedEof.
  Definition write_all_volatile := exact_volatile EWriteZero.
End Loops.
Arguments retry_eintr {S}. Arguments exact_loop {S}. Arguments exact_volatile {S}.
Arguments read_exact_volatile {S}. Arguments write_all_volatile {S}.

(* ------------------------------------------------------------------ in-memory adapters
   Stream state: [s_data] the underlying byte array, [s_pos] a position, [s_out] bytes delivered to
   a peer (fd streams only).  For &[u8] / &mut [u8] the Rust value is the slice
   data[pos..] (the adapter re-slices itself on every call: pos grows); for Cursor pos is the
   cursor position (any u64); for Vec pos is unused. *)
Record sstate := { s_data : list N; s_pos : N; s_out : list N }.
Definition slice_rem (st : sstate) : list N := ndrop (s_pos st) (s_data st).
Definition set_pos (st : sstate) (p : N) : sstate := {| s_data := s_data st; s_pos := p; s_out := s_out st |}.

(* io.rs:268-289 impl ReadVolatile for &[u8] :: read_volatile *)
Definition slice_read_volatile (st : sstate) (m : list N) (v : vslice) : outcome ((sstate * list N) * res N) :=
  let self := slice_rem st in
  let total := N.min (vs_len v) (nlen self) in                                   (* :273 *)
  let '(m', read) := copy_to_volatile_slice m v self total in                    (* :283 *)
  let* _ := passert 286 (read <=? nlen self) in                                   (* :286 split_at(read) *)
  Val ((set_pos st (s_pos st + read), m'), Ok read).

(* io.rs:291-304 read_exact_volatile for &[u8] *)
Definition slice_read_exact_volatile (st : sstate) (m : list N) (v : vslice)
  : outcome ((sstate * list N) * res unit) :=
  if nlen (slice_rem st) <? vs_len v then Val ((st, m), Err (VIo EUnexpectedEof))  (* :296 buf.len() > self.len() *)
  else
    let* x := slice_read_volatile st m v in
    let '(sm, r) := x in
    Val (sm, match r with Ok _ => Ok tt | Err e => Err e end).                    (* :303 .map(|_| ()) *)

(* io.rs:229-250 impl WriteVolatile for &mut [u8] :: write_volatile *)
Definition mslice_write_volatile (st : sstate) (m : list N) (v : vslice) : outcome ((sstate * list N) * res N) :=
  let self := slice_rem st in
  let total := N.min (vs_len v) (nlen self) in                                   (* :234 *)
  let '(bytes, written) := copy_from_volatile_slice m v total in                 (* :244 *)
  let* _ := passert 247 (written <=? nlen self) in                                (* :247 split_at_mut(written) *)
  Val (({| s_data := mem_write (s_data st) (s_pos st) bytes; s_pos := s_pos st + written; s_out := s_out st |}, m),
       Ok written).

(* io.rs:252-265 write_all_volatile for &mut [u8] *)
Definition mslice_write_all_volatile (st : sstate) (m : list N) (v : vslice)
  : outcome ((sstate * list N) * res unit) :=
  let* x := mslice_write_volatile st m v in
  let '(sm, r) := x in
  match r with
  | Err e => Val (sm, Err e)                                                      (* :257 ? *)
  | Ok n => if n =? vs_len v then Val (sm, Ok tt) else Val (sm, Err (VIo EWriteZero))
  end.

(* io.rs:309-335 impl WriteVolatile for Vec<u8> (reserve assumed to succeed) *)
Definition vec_write_volatile (md : mode) (st : sstate) (m : list N) (v : vslice)
  : outcome ((sstate * list N) * res N) :=
  let count := vs_len v in                                                        (* :314 *)
  let len := nlen (s_data st) in                                                  (* :316 *)
  let '(bytes, copied_len) := copy_from_volatile_slice m v count in               (* :329 *)
  let* _ := passert 331 (copied_len =? count) in                                  (* :331 assert_eq! *)
  let* _ := padd md 332 len count in                                              (* :332 set_len(len + count) *)
  Val (({| s_data := s_data st ++ bytes; s_pos := s_pos st; s_out := s_out st |}, m), Ok count).

(* io.rs:344-353 Cursor<T: AsRef<[u8]>> :: read_volatile *)
Definition cursor_read_volatile (md : mode) (st : sstate) (m : list N) (v : vslice)
  : outcome ((sstate * list N) * res N) :=
  let inner := s_data st in                                                       (* :348 *)
  let len := N.min (s_pos st) (nlen inner) in                                     (* :349 *)
  let* _ := passert 350 (len <=? nlen inner) in                                   (* :350 &inner[len..] *)
  let* x := slice_read_volatile {| s_data := ndrop len inner; s_pos := 0; s_out := [] |} m v in
  let '((_, m'), r) := x in
  match r with
  | Err e => Val ((st, m'), Err e)
  | Ok n => let* p := padd md 351 (s_pos st) n in                                 (* :351 set_position(position + n) *)
            Val ((set_pos st p, m'), Ok n)
  end.

(* io.rs:355-365 Cursor :: read_exact_volatile *)
Definition cursor_read_exact_volatile (md : mode) (st : sstate) (m : list N) (v : vslice)
  : outcome ((sstate * list N) * res unit) :=
  let inner := s_data st in
  let n := vs_len v in                                                            (* :360 *)
  let len := N.min (s_pos st) (nlen inner) in                                     (* :361 *)
  let* _ := passert 362 (len <=? nlen inner) in
  let* x := slice_read_exact_volatile {| s_data := ndrop len inner; s_pos := 0; s_out := [] |} m v in
  let '((_, m'), r) := x in
  match r with
  | Err e => Val ((st, m'), Err e)                                                (* :362 ? *)
  | Ok _ => let* p := padd md 363 (s_pos st) n in                                 (* :363 *)
            Val ((set_pos st p, m'), Ok tt)
  end.

(* io.rs:368-377 Cursor<&mut [u8]> :: write_volatile (the temporary slice aliases data[pos..]) *)
Definition cursor_write_volatile (md : mode) (st : sstate) (m : list N) (v : vslice)
  : outcome ((sstate * list N) * res N) :=
  let data := s_data st in
  let pos := N.min (s_pos st) (nlen data) in                                      (* :373 *)
  let* _ := passert 374 (pos <=? nlen data) in                                    (* :374 [pos..] *)
  let* x := mslice_write_volatile {| s_data := ndrop pos data; s_pos := 0; s_out := [] |} m v in
  let '((tmp, m'), r) := x in
  let data' := ntake pos data ++ s_data tmp in
  match r with
  | Err e => Val (({| s_data := data'; s_pos := s_pos st; s_out := s_out st |}, m'), Err e)
  | Ok n => let* p := padd md 375 (s_pos st) n in                                 (* :375 *)
            Val (({| s_data := data'; s_pos := p; s_out := s_out st |}, m'), Ok n)
  end.

(* ------------------------------------------------------------------ raw fd adapters
   io.rs:177-227; the OS calls are an oracle: libc::read deposits the bytes it returns at dst,
   libc::write is offered the whole window. *)
Inductive os_rres := OsData (bs : list N) | OsRErr (e : ioerr).
Inductive os_wres := OsCount (n : N) | OsWErr (e : ioerr).
Section RawFd.
  Variable F : Type.
  Variable os_read : F -> N -> F * os_rres.
  Variable os_write : F -> list N -> F * os_wres.

  (* io.rs:177-201 *)
  Definition read_volatile_raw_fd (f : F) (m : list N) (v : vslice) : outcome ((F * list N) * res N) :=
    let '(f', r) := os_read f (vs_len v) in                                        (* :189 *)
    match r with
    | OsRErr e => Val ((f', m), Err (VIo e))                                       (* :191-195 bytes_read < 0 *)
    | OsData bs => Val ((f', mem_write m (vs_off v) bs), Ok (nlen bs))             (* :197-199 *)
    end.
  (* io.rs:208-227 *)
  Definition write_volatile_raw_fd (f : F) (m : list N) (v : vslice) : outcome ((F * list N) * res N) :=
    let '(f', r) := os_write f (mem_read m (vs_off v) (vs_len v)) in               (* :220 *)
    match r with
    | OsWErr e => Val ((f', m), Err (VIo e))                                       (* :222 *)
    | OsCount n => Val ((f', m), Ok n)                                             (* :225 *)
    end.
End RawFd.
Arguments read_volatile_raw_fd {F}. Arguments write_volatile_raw_fd {F}.

(* Instances of the OS oracle used by the correspondence runs (assumptions about the kernel, not
   about vm-memory): a regular file with an offset, a byte queue (pipe / UnixStream whose
   writing peer has shut down; what is written goes to the peer, collected in s_out), and a MESSAGE
   queue (msgq_read / msgq_write below). *)
Definition file_read (st : sstate) (len : N) : sstate * os_rres :=
  let bs := ntake len (ndrop (s_pos st) (s_data st)) in
  (set_pos st (s_pos st + nlen bs), OsData bs).
Definition file_write (st : sstate) (bs : list N) : sstate * os_wres :=
  if nlen bs =? 0 then (st, OsCount 0) else
  let padded := s_data st ++ repeat 0 (N.to_nat (s_pos st - nlen (s_data st))) in
  ({| s_data := ntake (s_pos st) padded ++ bs ++ ndrop (s_pos st + nlen bs) padded;
      s_pos := s_pos st + nlen bs; s_out := s_out st |}, OsCount (nlen bs)).
Definition queue_read (st : sstate) (len : N) : sstate * os_rres :=
  ({| s_data := ndrop len (s_data st); s_pos := s_pos st; s_out := s_out st |}, OsData (ntake len (s_data st))).
Definition queue_write (st : sstate) (bs : list N) : sstate * os_wres :=
  ({| s_data := s_data st; s_pos := s_pos st; s_out := s_out st ++ bs |}, OsCount (nlen bs)).

(* A message queue: non-blocking AF_UNIX SOCK_SEQPACKET / SOCK_DGRAM socketpair whose peer stays open.
   [s_data] holds the queued messages in order, each followed by the marker MSG_END = 256 (payload
   bytes are < 256; an empty message is a bare marker); [s_out] collects the messages sent to the peer in
   the same encoding.  What the kernel does (net/unix/af_unix.c unix_dgram_recvmsg / unix_dgram_sendmsg,
   net/socket.c sock_read_iter; checked on the running kernel by the twin runs of the C13 harness):
     read(2), len > 0   dequeues ONE message and delivers its first len bytes; the excess of a longer
                        message is discarded (MSG_TRUNC); an empty message gives 0; an empty queue EAGAIN
     read(2), len = 0   returns 0 and leaves the queue alone ("Match SYS5 behaviour")
     write(2)           enqueues ONE message holding the whole buffer (also when the buffer is empty)
   This is the stream kind that delivers a request in PIECES without any timing: one read(2) never
   returns more than one message, so read_exact_volatile has to go round its loop. *)
Definition MSG_END : N := 256.
Fixpoint msg_split (l : list N) {struct l} : list N * list N :=
  match l with
  | [] => ([], [])
  | x :: t => if x =? MSG_END then ([], t) else let '(m, r) := msg_split t in (x :: m, r)
  end.
Definition msgq_read (st : sstate) (len : N) : sstate * os_rres :=
  if len =? 0 then (st, OsData [])
  else match s_data st with
       | [] => (st, OsRErr EOther)                                                  (* EAGAIN / WouldBlock *)
       | _ => let '(m, r) := msg_split (s_data st) in
              ({| s_data := r; s_pos := s_pos st; s_out := s_out st |}, OsData (ntake len m))
       end.
Definition msgq_write (st : sstate) (bs : list N) : sstate * os_wres :=
  ({| s_data := s_data st; s_pos := s_pos st; s_out := s_out st ++ bs ++ [MSG_END] |}, OsCount (nlen bs)).

(* ------------------------------------------------------------------ scripted descriptors
   A REAL descriptor whose read(2) / write(2) calls are intercepted by the harness (harness/src/fdscript.rs:
   the executable's own `read` / `write` symbols take precedence over libc.so's for vm-memory's and std's
   call sites).  A script - a list of per-call behaviours of ANY length - is attached to the descriptor;
   every call on it consumes one behaviour:
     FFull     the real system call with the caller's count
     FShort k  the real system call with the count clamped to k (the data really moves)
     FZero     returns 0 without a system call
     FEintr    errno = EINTR, returns -1 without a system call
     FErr      errno = some other error (EIO, EAGAIN, EBADF, ENOSPC, EPIPE, ECONNRESET), -1, no system call
   and when the script is exhausted the real system call is made.  [f_calls] counts the calls the descriptor
   received.  This is an instance of the OS oracle of Section RawFd, built on top of any underlying oracle
   (regular file, byte queue). *)
Inductive fbeh := FFull | FShort (k : N) | FZero | FEintr | FErr.
Record sfd := { f_st : sstate; f_script : list fbeh; f_calls : N }.
Section Scripted.
  Variable os_read : sstate -> N -> sstate * os_rres.
  Variable os_write : sstate -> list N -> sstate * os_wres.
  Definition scr_next (f : sfd) (st : sstate) : sfd :=
    {| f_st := st; f_script := tl (f_script f); f_calls := f_calls f + 1 |}.
  Definition scr_read (f : sfd) (len : N) : sfd * os_rres :=
    match f_script f with
    | [] | FFull :: _ => let '(st', r) := os_read (f_st f) len in (scr_next f st', r)
    | FShort k :: _ => let '(st', r) := os_read (f_st f) (N.min k len) in (scr_next f st', r)
    | FZero :: _ => (scr_next f (f_st f), OsData [])
    | FEintr :: _ => (scr_next f (f_st f), OsRErr EInterrupted)
    | FErr :: _ => (scr_next f (f_st f), OsRErr EOther)
    end.
  Definition scr_write (f : sfd) (bs : list N) : sfd * os_wres :=
    match f_script f with
    | [] | FFull :: _ => let '(st', r) := os_write (f_st f) bs in (scr_next f st', r)
    | FShort k :: _ => let '(st', r) := os_write (f_st f) (ntake (N.min k (nlen bs)) bs) in (scr_next f st', r)
    | FZero :: _ => (scr_next f (f_st f), OsCount 0)
    | FEintr :: _ => (scr_next f (f_st f), OsWErr EInterrupted)
    | FErr :: _ => (scr_next f (f_st f), OsWErr EOther)
    end.
End Scripted.
