(* src/volatile_memory.rs, src/bytes.rs (write_obj/read_obj defaults), src/io.rs (the two slice
   impls of ReadVolatile/WriteVolatile used by Bytes::write/read), src/mmap/unix.rs + src/mmap/mod.rs
   (region-level delegation): the data-moving accessors of a volatile container.

   Host memory is one byte list [heap]; heap index i is the host address  hb + i  (hb = address
   of the first heap byte; it only matters for the pointer-overflow test in VolatileSlice::offset
   and for alignment checks).  A VolatileSlice is (address as heap index, size); sub-slices and
   aliasing slices are other (index,size) pairs over the same heap, exactly as the raw pointers
   of the Rust code alias one allocation.

   The byte-copy helper copy_slice_impl::copy_slice is modelled as memcpy (its access plan is
   property C06); ptr::copy is memmove (read all, then write).  Dirty-bitmap calls are omitted
   (C05/C16).  Typed values are numbers; their in-memory image is [as_slice] (little-endian
   host; the Be wrappers keep a byte-swapped integer). *)
From VM Require Import Prelude.MachInt Prelude.Outcome.

Definition heap := list N.
Definition len (l : list N) : N := N.of_nat (length l).

(* firstn / skipn with a machine-integer count (recursion on the list, so that a count of
   2^63 costs nothing when the model is executed) *)
Fixpoint takeN (n : N) (l : list N) {struct l} : list N :=
  match l with [] => [] | x :: r => if n =? 0 then [] else x :: takeN (n - 1) r end.
Fixpoint dropN (n : N) (l : list N) {struct l} : list N :=
  match l with [] => [] | x :: r => if n =? 0 then l else dropN (n - 1) r end.
(* read_volatile / copy source: the [n] bytes at heap index [a] *)
Definition h_read (h : heap) (a n : N) : list N := takeN n (dropN a h).
(* write_volatile / copy destination: store the bytes [d] at heap index [a] *)
Definition h_write (h : heap) (a : N) (d : list N) : heap :=
  takeN a h ++ d ++ dropN (a + len d) h.

(* ---- plain-data values (ByteValued): size + byte order of the wrapper ---- *)
Record vty := { ty_size : N; ty_be : bool }.
Fixpoint enc_le (n : nat) (v : N) {struct n} : list N :=
  match n with O => [] | S k => v mod 256 :: enc_le k (v / 256) end.
Fixpoint dec_le (l : list N) {struct l} : N :=
  match l with [] => 0 | b :: r => b + 256 * dec_le r end.
(* ByteValued::as_slice (bytes.rs:77): the object's bytes; u16..u128 and [u8;N] little-endian,
   BeNN::new(v) holds v.to_be() *)
Definition as_slice (t : vty) (v : N) : list N :=
  let l := enc_le (N.to_nat (ty_size t)) v in if ty_be t then rev l else l.
(* the value whose image is [l] (read_volatile(ptr as *const Packed<T>).0, as_mut_slice filled) *)
Definition from_bytes (t : vty) (l : list N) : N := dec_le (if ty_be t then rev l else l).

Inductive verr := EOutOfBounds | EOverflow | EPartialBuffer | EMisaligned | ETooBig | EInvalidBackendAddress.
Inductive result (A : Type) := Ok (a : A) | Err (e : verr).
Arguments Ok {A}. Arguments Err {A}.

(* volatile_memory.rs:93 *)
Definition compute_offset (base offset : N) : result N :=
  match checked_add base offset with None => Err EOverflow | Some x => Ok x end.
(* volatile_memory.rs:291 *)
Definition compute_end_offset (slen base offset : N) : result N :=
  match compute_offset base offset with
  | Err e => Err e
  | Ok mem_end => if slen <? mem_end then Err EOutOfBounds else Ok mem_end
  end.

Record vslice := { vs_addr : N; vs_size : N }.

(* VolatileSlice::subslice :494 ( = VolatileMemory::get_slice :853) *)
Definition vs_subslice (s : vslice) (offset count : N) : result vslice :=
  match compute_end_offset (vs_size s) offset count with
  | Err e => Err e
  | Ok _ => Ok {| vs_addr := vs_addr s + offset; vs_size := count |}
  end.
Definition vs_get_slice := vs_subslice.

(* VolatileSlice::offset :514 *)
Definition vs_offset (hb : N) (s : vslice) (count : N) : result vslice :=
  match checked_add (hb + vs_addr s) count with
  | None => Err EOverflow
  | Some _ =>
    match checked_sub (vs_size s) count with
    | None => Err EOutOfBounds
    | Some new_size => Ok {| vs_addr := vs_addr s + count; vs_size := new_size |}
    end
  end.

(* copy_slice_impl::copy_to_volatile_slice :1434 (copy_slice = memcpy of [total] bytes) *)
Definition copy_to_volatile_slice (h : heap) (s : vslice) (src : list N) (total : N) : heap * N :=
  (h_write h (vs_addr s) (takeN total src), total).
(* copy_slice_impl::copy_from_volatile_slice :1419 ; [dst] is the destination buffer *)
Definition copy_from_volatile_slice (h : heap) (dst : list N) (s : vslice) (total : N) : list N * N :=
  (h_read h (vs_addr s) total ++ dropN total dst, total).

(* ---- impl Bytes<usize> for VolatileSlice ---- *)
(* write :697 ; buf.read_volatile(&mut self.offset(addr)?) is io.rs:268 (total = buf.len().min(self.len())) *)
Definition vs_write (hb : N) (h : heap) (s : vslice) (buf : list N) (addr : N) : heap * result N :=
  if len buf =? 0 then (h, Ok 0) else
  if vs_size s <=? addr then (h, Err EOutOfBounds) else
  match vs_offset hb s addr with
  | Err e => (h, Err e)
  | Ok sl =>
    let total := N.min (vs_size sl) (len buf) in
    let '(h', n) := copy_to_volatile_slice h sl buf total in (h', Ok n)
  end.
(* read :726 ; buf.write_volatile(&self.offset(addr)?) is io.rs:229 *)
Definition vs_read (hb : N) (h : heap) (s : vslice) (buf : list N) (addr : N) : list N * result N :=
  if len buf =? 0 then (buf, Ok 0) else
  if vs_size s <=? addr then (buf, Err EOutOfBounds) else
  match vs_offset hb s addr with
  | Err e => (buf, Err e)
  | Ok sl =>
    let total := N.min (vs_size sl) (len buf) in
    let '(b', n) := copy_from_volatile_slice h buf sl total in (b', Ok n)
  end.
(* write_slice :759 *)
Definition vs_write_slice (hb : N) (h : heap) (s : vslice) (buf : list N) (addr : N) : heap * result unit :=
  let '(h', r) := vs_write hb h s buf addr in
  match r with
  | Err e => (h', Err e)
  | Ok l => if negb (l =? len buf) then (h', Err EPartialBuffer) else (h', Ok tt)
  end.
(* read_slice :788 *)
Definition vs_read_slice (hb : N) (h : heap) (s : vslice) (buf : list N) (addr : N) : list N * result unit :=
  let '(b', r) := vs_read hb h s buf addr in
  match r with
  | Err e => (b', Err e)
  | Ok l => if negb (l =? len buf) then (b', Err EPartialBuffer) else (b', Ok tt)
  end.
(* Bytes::write_obj bytes.rs:299 *)
Definition vs_write_obj (hb : N) (h : heap) (s : vslice) (t : vty) (v : N) (addr : N) : heap * result unit :=
  vs_write_slice hb h s (as_slice t v) addr.
(* Bytes::read_obj bytes.rs:312 : result = T::zeroed(); read_slice(result.as_mut_slice()).map(|_| result) *)
Definition vs_read_obj (hb : N) (h : heap) (s : vslice) (t : vty) (addr : N) : result N :=
  let zeroed := repeat 0 (N.to_nat (ty_size t)) in
  let '(b', r) := vs_read_slice hb h s zeroed addr in
  match r with Err e => Err e | Ok _ => Ok (from_bytes t b') end.

(* check_alignment :668 *)
Definition vs_check_alignment (m : mode) (hb : N) (s : vslice) (alignment : N) : outcome (result unit) :=
  let* am1 := psub m 671 alignment 1 in
  let* _ := match m with Debug => passert 670 (N.land alignment am1 =? 0) | Release => Val tt end in
  Val (if negb (N.land (hb + vs_addr s) am1 =? 0) then Err EMisaligned else Ok tt).
(* get_atomic_ref :260 ; size_of = align_of = [size] for the AtomicAccess integer types *)
Definition vs_get_atomic_ref (m : mode) (hb : N) (s : vslice) (size offset : N) : outcome (result N) :=
  match vs_get_slice s offset size with
  | Err e => Val (Err e)
  | Ok slice =>
    let* a := vs_check_alignment m hb slice size in
    match a with
    | Err e => Val (Err e)
    | Ok _ => let* _ := passert 264 (vs_size slice =? size) in Val (Ok (vs_addr slice))
    end
  end.
(* store :833 / load :840 *)
Definition vs_store (m : mode) (hb : N) (h : heap) (s : vslice) (t : vty) (v addr : N) : outcome (heap * result unit) :=
  let* r := vs_get_atomic_ref m hb s (ty_size t) addr in
  Val (match r with Err e => (h, Err e) | Ok a => (h_write h a (as_slice t v), Ok tt) end).
Definition vs_load (m : mode) (hb : N) (h : heap) (s : vslice) (t : vty) (addr : N) : outcome (result N) :=
  let* r := vs_get_atomic_ref m hb s (ty_size t) addr in
  Val (match r with Err e => Err e | Ok a => Ok (from_bytes t (h_read h a (ty_size t))) end).

(* ---- VolatileRef ---- *)
(* VolatileMemory::get_ref :127 ; returns the address of the VolatileRef *)
Definition vs_get_ref (s : vslice) (size offset : N) : outcome (result N) :=
  match vs_get_slice s offset size with
  | Err e => Val (Err e)
  | Ok slice => let* _ := passert 130 (vs_size slice =? size) in Val (Ok (vs_addr slice))
  end.
(* VolatileRef::store :952 / load :962 *)
Definition vr_store (h : heap) (a : N) (t : vty) (v : N) : heap := h_write h a (as_slice t v).
Definition vr_load (h : heap) (a : N) (t : vty) : N := from_bytes t (h_read h a (ty_size t)).

(* ---- VolatileArrayRef ---- *)
Record varr := { va_addr : N; va_nelem : N }.
(* VolatileMemory::get_array_ref :152 *)
Definition vs_get_array_ref (s : vslice) (size offset n : N) : outcome (result varr) :=
  let nbytes := if n <=? ISZ_MAX                        (* isize::try_from(n).ok() *)
                then (if n * size <=? ISZ_MAX then Some (n * size) else None)   (* checked_mul *)
                else None in
  match nbytes with
  | None => Val (Err ETooBig)
  | Some nb =>
    match vs_get_slice s offset nb with
    | Err e => Val (Err e)
    | Ok slice => let* _ := passert 167 (vs_size slice =? nb) in
                  Val (Ok {| va_addr := vs_addr slice; va_nelem := n |})
    end
  end.
(* ref_at :1134 ; (element_size * index) as isize is non-negative whenever the array came from
   get_array_ref *)
Definition va_ref_at (m : mode) (a : varr) (size index : N) : outcome N :=
  let* _ := passert 1135 (index <? va_nelem a) in
  let* byteofs := pmul m 1140 size index in
  Val (va_addr a + byteofs).
(* load :1147 / store :1152 *)
Definition va_load (m : mode) (h : heap) (a : varr) (t : vty) (index : N) : outcome N :=
  let* r := va_ref_at m a (ty_size t) index in Val (vr_load h r t).
Definition va_store (m : mode) (h : heap) (a : varr) (t : vty) (index v : N) : outcome heap :=
  let* r := va_ref_at m a (ty_size t) index in Val (vr_store h r t v).
(* to_slice :1117 *)
Definition va_to_slice (m : mode) (a : varr) (size : N) : outcome vslice :=
  let* sz := pmul m 1122 (va_nelem a) size in Val {| vs_addr := va_addr a; vs_size := sz |}.

(* the element loops of copy_to :1200 and copy_from :1286 *)
Fixpoint va_read_loop (h : heap) (t : vty) (ptr : N) (k : nat) {struct k} : list N :=
  match k with
  | O => []
  | S k' => from_bytes t (h_read h ptr (ty_size t)) :: va_read_loop h t (ptr + ty_size t) k'
  end.
Fixpoint va_write_loop (h : heap) (t : vty) (ptr : N) (vals : list N) {struct vals} : heap :=
  match vals with
  | [] => h
  | v :: r => va_write_loop (h_write h ptr (as_slice t v)) t (ptr + ty_size t) r
  end.
(* copy_to :1178 ; in the one-byte path the element buffer is its own byte image *)
Definition va_copy_to (m : mode) (h : heap) (a : varr) (t : vty) (buf : list N) : outcome (list N * N) :=
  if ty_size t =? 1 then
    let* source := va_to_slice m a (ty_size t) in
    let total := N.min (len buf) (vs_size source) in
    Val (copy_from_volatile_slice h buf source total)
  else
    let* _ := pmul m 1103 (va_nelem a) (ty_size t) in          (* ptr_guard(): len()*element_size() *)
    let total := N.min (len buf) (va_nelem a) in
    Val (va_read_loop h t (va_addr a) (N.to_nat total) ++ dropN total buf, total).
(* copy_from :1266 *)
Definition va_copy_from (m : mode) (h : heap) (a : varr) (t : vty) (buf : list N) : outcome heap :=
  if ty_size t =? 1 then
    let* destination := va_to_slice m a (ty_size t) in
    let total := N.min (len buf) (vs_size destination) in
    Val (fst (copy_to_volatile_slice h destination buf total))
  else
    let* _ := pmul m 1108 (va_nelem a) (ty_size t) in          (* ptr_guard_mut() *)
    Val (va_write_loop h t (va_addr a) (takeN (va_nelem a) buf)).
(* copy_to_volatile_slice :1234 (ptr::copy = memmove) *)
Definition va_copy_to_volatile_slice (m : mode) (h : heap) (a : varr) (size : N) (slice : vslice) : outcome heap :=
  let* bytes := pmul m 1240 (va_nelem a) size in
  let count := N.min bytes (vs_size slice) in
  Val (h_write h (vs_addr slice) (h_read h (va_addr a) count)).

(* ---- VolatileSlice element / slice copies ---- *)
(* copy_to :558 *)
Definition vs_copy_to (m : mode) (h : heap) (s : vslice) (t : vty) (buf : list N) : outcome (list N * N) :=
  if ty_size t =? 1 then
    let total := N.min (len buf) (vs_size s) in
    Val (copy_from_volatile_slice h buf s total)
  else if ty_size t =? 0 then Val (buf, len buf)
  else
    let* count := pdiv 578 (vs_size s) (ty_size t) in
    let* r := vs_get_array_ref s (ty_size t) 0 count in
    match r with
    | Err _ => Panic 579                                        (* .unwrap() *)
    | Ok source => va_copy_to m h source t buf
    end.
(* copy_from :640 *)
Definition vs_copy_from (m : mode) (h : heap) (s : vslice) (t : vty) (buf : list N) : outcome heap :=
  if ty_size t =? 1 then
    let total := N.min (len buf) (vs_size s) in
    Val (fst (copy_to_volatile_slice h s buf total))
  else if negb (ty_size t =? 0) then
    let* count := pdiv 656 (vs_size s) (ty_size t) in
    let* r := vs_get_array_ref s (ty_size t) 0 count in
    match r with
    | Err _ => Panic 659
    | Ok dest => va_copy_from m h dest t buf
    end
  else Val h.
(* copy_to_volatile_slice :605 *)
Definition vs_copy_to_volatile_slice (h : heap) (s slice : vslice) : heap :=
  let count := N.min (vs_size s) (vs_size slice) in
  h_write h (vs_addr slice) (h_read h (vs_addr s) count).

(* ---- regions ---- *)
Record mmap_region := { mr_addr : N; mr_size : N }.
(* impl VolatileMemory for MmapRegion, mmap/unix.rs:395 *)
Definition mr_get_slice (r : mmap_region) (offset count : N) : result vslice :=
  match compute_end_offset (mr_size r) offset count with
  | Err e => Err e
  | Ok _ => Ok {| vs_addr := mr_addr r + offset; vs_size := count |}
  end.
(* VolatileMemory::as_volatile_slice :122 : get_slice(0, len()).unwrap() *)
Definition mr_as_volatile_slice (r : mmap_region) : outcome vslice :=
  match mr_get_slice r 0 (mr_size r) with Ok s => Val s | Err _ => Panic 123 end.
(* From<volatile_memory::Error> for guest_memory::Error, guest_memory.rs:87 *)
Definition gm_err (e : verr) : verr :=
  match e with EPartialBuffer => EPartialBuffer | _ => EInvalidBackendAddress end.
Definition gm_res {A} (r : result A) : result A := match r with Ok a => Ok a | Err e => Err (gm_err e) end.
(* GuestMemoryRegion::as_volatile_slice guest_memory.rs:268 over GuestRegionMmap::get_slice mmap/mod.rs:350 *)
Definition grm_as_volatile_slice (r : mmap_region) : result vslice :=
  gm_res (mr_get_slice r 0 (mr_size r)).
