(* Stream transfers into / out of guest memory (C14):
     - scripted streams (the fault model: one behaviour per call, Zero after the script ends),
     - VolatileSlice::{read_volatile_from, read_exact_volatile_from, write_volatile_to,
       write_all_volatile_to}                                   src/volatile_memory.rs:799-831
     - GuestRegionMmap delegation                                 src/mmap/mod.rs:237-294
     - GuestMemory::try_access (minimal local transcription)      src/guest_memory.rs:504-541
     - the four stream methods of Bytes<GuestAddress> for T: GuestMemory   src/guest_memory.rs:678-730
   All guest memory of a case is ONE host byte list; a region owns the window
   [g_moff, g_moff + g_len) of it. *)
From VM Require Import Prelude.MachInt Prelude.Outcome Prelude.C1314List Impl.Io.

(* ------------------------------------------------------------------ scripted streams *)
Inductive beh := Full | Short (k : N) | Zero | Eintr | HardErr.
(* k_src: bytes the reader has not delivered yet; k_sink: bytes the writer has accepted;
   k_done: log of the behaviour of every call made so far *)
Record sstream := { k_script : list beh; k_src : list N; k_sink : list N; k_done : list beh }.
Definition next_beh (s : sstream) : beh := hd Zero (k_script s).       (* script over: end of stream *)
Definition amount (b : beh) (len : N) : N :=
  match b with Full => len | Short k => N.min k len | _ => 0 end.
Definition advance (s : sstream) (src sink : list N) : sstream :=
  {| k_script := tl (k_script s); k_src := src; k_sink := sink; k_done := k_done s ++ [next_beh s] |}.

(* ReadVolatile::read_volatile of the scripted reader: deposits the next bytes of its source at the
   start of the buffer *)
Definition sr_call : callT sstream := fun s m v =>
  match next_beh s with
  | Eintr => Val ((advance s (k_src s) (k_sink s), m), Err (VIo EInterrupted))
  | HardErr => Val ((advance s (k_src s) (k_sink s), m), Err (VIo EOther))
  | b => let bs := ntake (amount b (vs_len v)) (k_src s) in
         Val ((advance s (ndrop (nlen bs) (k_src s)) (k_sink s), mem_write m (vs_off v) bs), Ok (nlen bs))
  end.
(* WriteVolatile::write_volatile of the scripted writer: accepts a prefix of the buffer *)
Definition sw_call : callT sstream := fun s m v =>
  match next_beh s with
  | Eintr => Val ((advance s (k_src s) (k_sink s), m), Err (VIo EInterrupted))
  | HardErr => Val ((advance s (k_src s) (k_sink s), m), Err (VIo EOther))
  | b => let k := amount b (vs_len v) in
         Val ((advance s (k_src s) (k_sink s ++ mem_read m (vs_off v) k), m), Ok k)
  end.

(* ------------------------------------------------------------------ VolatileSlice *)
Section Xfer.
  Variable S : Type.

  (* volatile_memory.rs:799-807 read_volatile_from and :816-824 write_volatile_to (same text, the
     call being src.read_volatile(&mut slice) resp. dst.write_volatile(&slice)):
       let slice = self.offset(addr)?;
       let slice = slice.subslice(0, slice.len().min(count)).unwrap();
       retry_eintr!(call(slice)) *)
  Definition vs_upto (fuel : nat) (call : callT S) (self : vslice) (addr : N) (s : S) (m : list N) (count : N)
    : outcome ((S * list N) * res N) :=
    match vs_offset self addr with
    | Err e => Val ((s, m), Err e)
    | Ok sl =>
        match vs_subslice sl 0 (N.min (vs_len sl) count) with
        | Err _ => Panic 803                                        (* .unwrap() *)
        | Ok sl2 => retry_eintr fuel call s m sl2
        end
    end.
  (* volatile_memory.rs:809-814 read_exact_volatile_from, :826-831 write_all_volatile_to:
       src.read_exact_volatile(&mut self.get_slice(addr, count)?)       (get_slice = subslice, :853) *)
  Definition vs_exact (zero_err : ioerr) (fuel : nat) (call : callT S) (self : vslice) (addr : N) (s : S)
    (m : list N) (count : N) : outcome ((S * list N) * res unit) :=
    match vs_subslice self addr count with
    | Err e => Val ((s, m), Err e)
    | Ok sl => exact_volatile zero_err fuel call s m sl
    end.
  Definition vs_read_volatile_from := vs_upto.
  Definition vs_write_volatile_to := vs_upto.
  Definition vs_read_exact_volatile_from := vs_exact EUnexpectedEof.
  Definition vs_write_all_volatile_to := vs_exact EWriteZero.
End Xfer.
Arguments vs_upto {S}. Arguments vs_exact {S}.
Arguments vs_read_volatile_from {S}. Arguments vs_write_volatile_to {S}.
Arguments vs_read_exact_volatile_from {S}. Arguments vs_write_all_volatile_to {S}.

(* ------------------------------------------------------------------ regions and guest memory *)
Record region := { g_start : N; g_len : N; g_moff : N }.
Definition HBASE : N := 2 ^ 40.                        (* nominal host address of the byte list *)
(* GuestRegionMmap::as_volatile_slice().unwrap(): the whole mapping (guest_memory.rs:268) *)
Definition region_slice (r : region) : vslice :=
  {| vs_addr := HBASE + g_moff r; vs_off := g_moff r; vs_len := g_len r |}.

Inductive gerr :=
  | GInvalidGuestAddress | GIo (e : ioerr) | GPartialBuffer (expected completed : N)
  | GInvalidBackendAddress | GCallbackOutOfRange | GGuestAddressOverflow.
Inductive gres (A : Type) := GOk (a : A) | GErr (e : gerr).
Arguments GOk {A}. Arguments GErr {A}.
(* guest_memory.rs:87-104 impl From<volatile_memory::Error> for Error *)
Definition gerr_of (e : verr) : gerr := match e with VIo e => GIo e | _ => GInvalidBackendAddress end.
Definition map_err {A} (r : res A) : gres A := match r with Ok a => GOk a | Err e => GErr (gerr_of e) end.

Definition contains (r : region) (a : N) : bool := (g_start r <=? a) && (a - g_start r <? g_len r).
(* GuestMemoryMmap::find_region (mmap/mod.rs:499-507): the region containing addr (binary search over the
   sorted, disjoint region vector; modelled as a linear search - C02 models the search itself) *)
Definition find_region (L : list region) (a : N) : option region := find (fun r => contains r a) L.
(* guest_memory.rs:209-212 to_region_addr: checked_offset_from + check_address *)
Definition to_region_addr (r : region) (a : N) : option N :=
  match checked_sub a (g_start r) with
  | Some off => if off <? g_len r then Some off else None
  | None => None
  end.

Section Guest.
  Variable S : Type.

  (* mmap/mod.rs:237-294: self.as_volatile_slice().unwrap().<op>(addr.0 as usize, stream, count).map_err(Into::into) *)
  Definition region_upto (fuel : nat) (call : callT S) (r : region) (addr : N) (s : S) (m : list N) (count : N)
    : outcome ((S * list N) * gres N) :=
    omap (fun x => (fst x, map_err (snd x))) (vs_upto fuel call (region_slice r) addr s m count).
  Definition region_exact (zero_err : ioerr) (fuel : nat) (call : callT S) (r : region) (addr : N) (s : S)
    (m : list N) (count : N) : outcome ((S * list N) * gres unit) :=
    omap (fun x => (fst x, map_err (snd x))) (vs_exact zero_err fuel call (region_slice r) addr s m count).

  (* the callback handed to try_access: f(total, len, start, region) *)
  Definition cbT := N -> N -> N -> region -> S -> list N -> outcome ((S * list N) * gres N).

  (* guest_memory.rs:504-541 GuestMemory::try_access *)
  Fixpoint try_access (md : mode) (fuel : nat) (L : list region) (count addr : N) (f : cbT)
    (cur total : N) (s : S) (m : list N) {struct fuel} : outcome ((S * list N) * gres N) :=
    match fuel with
    | O => OutOfFuel
    | Datatypes.S fl =>
        match find_region L cur with                                         (* :510 while let Some(region) *)
        | None =>
            Val ((s, m), if total =? 0 then GErr GInvalidGuestAddress else GOk total)   (* :536-540 *)
        | Some region =>
            match to_region_addr region cur with
            | None => Panic 511                                               (* :511 unwrap *)
            | Some start =>
                let* cap := psub md 512 (g_len region) start in               (* :512 *)
                let* rem := psub md 513 count total in                        (* :513 count - total *)
                let len := N.min cap rem in
                let* x := f total len start region s m in                     (* :514 *)
                let '((s', m'), r) := x in
                match r with
                | GErr e => Val ((s', m'), GErr e)                            (* :533 e => return e *)
                | GOk len' =>
                    if len' =? 0 then Val ((s', m'), GOk total)               (* :516 Ok(0) *)
                    else
                      match checked_add total len' with                       (* :519-523 *)
                      | None => Val ((s', m'), GErr GCallbackOutOfRange)
                      | Some x' =>
                          if x' <? count then
                            let '(c, ovf) := overflowing_add cur len' in      (* :524-531 *)
                            if negb ovf then try_access md fl L count addr f c x' s' m'
                            else if c =? 0 then Val ((s', m'), GOk x')
                            else Val ((s', m'), GErr GGuestAddressOverflow)
                          else if x' =? count then Val ((s', m'), GOk x')
                          else Val ((s', m'), GErr GCallbackOutOfRange)
                      end
                end
            end
        end
    end.

  (* guest_memory.rs:678-685 read_volatile_from:
       self.try_access(count, addr, |_, len, caddr, region| region.read_volatile_from(caddr, src, len)) *)
  Definition gm_read_volatile_from (md : mode) (fuel : nat) (call : callT S) (L : list region) (addr : N)
    (s : S) (m : list N) (count : N) : outcome ((S * list N) * gres N) :=
    try_access md fuel L count addr
      (fun _ len caddr region s m => region_upto fuel call region caddr s m len) addr 0 s m.
  (* guest_memory.rs:706-715 write_volatile_to:
       |_, len, caddr, region| region.write_all_volatile_to(caddr, dst, len).map(|()| len) *)
  Definition gm_write_volatile_to (md : mode) (fuel : nat) (call : callT S) (L : list region) (addr : N)
    (s : S) (m : list N) (count : N) : outcome ((S * list N) * gres N) :=
    try_access md fuel L count addr
      (fun _ len caddr region s m =>
         omap (fun x => (fst x, match snd x with GOk _ => GOk len | GErr e => GErr e end))
              (region_exact EWriteZero fuel call region caddr s m len)) addr 0 s m.
  (* guest_memory.rs:687-704 read_exact_volatile_from / :717-730 write_all_volatile_to:
       let res = self.<upto>(addr, stream, count)?; if res != count { PartialBuffer } *)
  Definition gm_exact_of (x : outcome ((S * list N) * gres N)) (count : N) : outcome ((S * list N) * gres unit) :=
    omap (fun x => (fst x, match snd x with
                           | GErr e => GErr e
                           | GOk res => if res =? count then GOk tt else GErr (GPartialBuffer count res)
                           end)) x.
  Definition gm_read_exact_volatile_from md fuel call L addr s m count :=
    gm_exact_of (gm_read_volatile_from md fuel call L addr s m count) count.
  Definition gm_write_all_volatile_to md fuel call L addr s m count :=
    gm_exact_of (gm_write_volatile_to md fuel call L addr s m count) count.
End Guest.
Arguments region_upto {S}. Arguments region_exact {S}. Arguments try_access {S}.
Arguments gm_read_volatile_from {S}. Arguments gm_write_volatile_to {S}.
Arguments gm_read_exact_volatile_from {S}. Arguments gm_write_all_volatile_to {S}. Arguments gm_exact_of {S}.
