(* src/bitmap/backend/atomic_bitmap.rs under concurrency (C08).

   The shared state is the word memory of ONE AtomicBitmap (`map: Vec<AtomicU64>`; size,
   byte_size and page_size are immutable while the bitmap is shared: enlarge needs &mut).
   A primitive is one atomic operation on one word; it is one indivisible step that returns
   the value it replaced.  Every library operation is a straight-line PROGRAM of primitives
   (no operation branches on a value it read), transcribed from the same lines as
   Impl/Bitmap.v.  An execution is ANY list of events (thread, operation, primitive): a
   superset of all interleavings of any number of threads. *)
From VM Require Import Prelude.MachInt Prelude.Outcome Impl.Bitmap.

Inductive prim :=
  | FetchOr (w m : N)      (* self.map[w].fetch_or(m, SeqCst)        :96 :116 *)
  | FetchAnd (w m : N)     (* self.map[w].fetch_and(m, SeqCst)       :98 :125 :142 *)
  | Load (w : N)           (* self.map[w].load(Acquire)              :56 :159 *)
  | Store (w v : N).       (* self.map[w].store(v, Release)          :149 *)

Definition mem := list N.

Definition prim_word (p : prim) : N :=
  match p with FetchOr w _ | FetchAnd w _ | Load w | Store w _ => w end.
Definition prim_new (p : prim) (old : N) : N :=
  match p with
  | FetchOr _ m => N.lor old m
  | FetchAnd _ m => N.land old m
  | Load _ => old
  | Store _ v => v
  end.
(* one atomic step: the new memory and the replaced value.  Indexing outside the vector would
   be a panic in the code; programs never do it (Proofs/C08.v), the step then changes nothing
   and returns 0. *)
Definition prim_step (mm : mem) (p : prim) : mem * N :=
  let w := N.to_nat (prim_word p) in
  let old := nth w mm 0 in
  (upd mm w (fun _ => prim_new p old), old).

(* geometry of the shared bitmap *)
Record geom := { g_size : N; g_ps : N }.
Definition g_nwords (g : geom) : N := div_ceil (g_size g) 64.        (* :33 *)

Inductive cop :=
  | CSetRange (a l : N) | CResetRange (a l : N) | CSetBit (i : N) | CResetBit (i : N)
  | CHarvest | CClone | CReset | CIsBitSet (i : N).

Definition shr6 (i : N) : N := N.shiftr i 6.                         (* index >> 6 *)

(* :90-100 the loop of set_reset_addr_range as a list of primitives *)
Fixpoint range_prog (fuel : nat) (n last size : N) (set : bool) {struct fuel} : list prim :=
  match fuel with
  | O => []
  | S f =>
      if last <? n then []
      else if size <=? n then []                                     (* :91 break *)
      else (if set then FetchOr (shr6 n) (bit_mask n)                (* :96 *)
            else FetchAnd (shr6 n) (not64 (bit_mask n)))             (* :98 *)
           :: range_prog f (n + 1) last size set
  end.
Definition set_reset_prog (g : geom) (start len : N) (set : bool) : list prim :=
  if len =? 0 then [] else                                           (* :82 *)
  range_prog (S (S (N.to_nat (g_size g)))) (start / g_ps g)
             (saturating_add start (len - 1) / g_ps g) (g_size g) set.

Fixpoint nseq (k : nat) (a : N) {struct k} : list N :=
  match k with O => [] | S k' => a :: nseq k' (N.succ a) end.
Definition word_ids (g : geom) : list N := nseq (N.to_nat (g_nwords g)) 0.

Definition prog_of (g : geom) (o : cop) : list prim :=
  match o with
  | CSetRange a l => set_reset_prog g a l true
  | CResetRange a l => set_reset_prog g a l false
  | CSetBit i => if g_size g <=? i then [] else [FetchOr (shr6 i) (bit_mask i)]              (* :112-116 *)
  | CResetBit i => if g_size g <=? i then [] else [FetchAnd (shr6 i) (not64 (bit_mask i))]   (* :121-125 *)
  | CHarvest => map (fun w => FetchAnd w 0) (word_ids g)                                      (* :140-143 *)
  | CClone => map Load (word_ids g)                                                           (* :156-161 *)
  | CReset => map (fun w => Store w 0) (word_ids g)                                           (* :148-150 *)
  | CIsBitSet i => if i <? g_size g then [Load (shr6 i)] else []                              (* :55-56 *)
  end.

(* an event: which thread, which of its operations (index in the thread's program), the primitive *)
Record event := { e_tid : N; e_op : N; e_prim : prim }.

(* run an arbitrary event list; the log pairs every event with the value it replaced *)
Fixpoint run_events (mm : mem) (tr : list event) {struct tr} : mem * list (event * N) :=
  match tr with
  | [] => (mm, [])
  | e :: tr' =>
      let '(mm1, old) := prim_step mm (e_prim e) in
      let '(mm2, lg) := run_events mm1 tr' in
      (mm2, (e, old) :: lg)
  end.

(* ---- the deterministic scheduler of the harness: a schedule is a list of thread ids; an entry
   naming a thread that has finished is skipped; when the schedule is exhausted the remaining
   threads run to completion in thread order ---- *)
Fixpoint take_turn (progs : list (list event)) (t : nat) {struct progs} : option (event * list (list event)) :=
  match progs, t with
  | [], _ => None
  | [] :: _, O => None
  | (e :: p) :: rest, O => Some (e, p :: rest)
  | p :: rest, S t' =>
      match take_turn rest t' with
      | Some (e, rest') => Some (e, p :: rest')
      | None => None
      end
  end.
Fixpoint merge (sched : list N) (progs : list (list event)) {struct sched} : list event :=
  match sched with
  | [] => concat progs
  | t :: sched' =>
      match take_turn progs (N.to_nat t) with
      | Some (e, progs') => e :: merge sched' progs'
      | None => merge sched' progs
      end
  end.
