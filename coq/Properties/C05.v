(* C05 - No tracked write leaves its pages clean (dirty tracking is sound).  Statements only.
   Reading guide: a state is a list of regions (geometry + page set); [run_step] executes one
   library operation (through an accessor derived by ANY chain of sub-slicing from a region, or at
   guest-memory level) and returns the new state and the operation's effect list - one effect per
   (region, written byte range); [D rs j p] = page p of region j is reported dirty. *)
From VM Require Import Prelude.MachInt Impl.Dirty Spec.C05 Suite.C05 Proofs.C05 Proofs.C05ModelOk.

(* every byte an operation writes lies inside its region and on a page that the region's own
   bitmap reports dirty afterwards - for every page size, layout, operation, offset/length,
   derivation chain, tracked flavour *)
Theorem C05_sound : forall hm rs s rs' out, wf rs -> is_reset s = false -> run_step hm rs s = (rs', out) ->
  forall e, In e (o_effs out) -> forall r, nth_error rs (e_r e) = Some r -> r_tracked r = true ->
  forall i, e_woff e <= i < e_woff e + e_wn e ->
  i < r_size r /\ D rs' (e_r e) (i / r_ps r) = true.
Proof. exact C05_sound_lemma. Qed.

(* a later write never cleans a page: marks survive until an explicit reset *)
Theorem C05_monotone : forall hm rs s rs' out j p, wf rs -> is_reset s = false -> run_step hm rs s = (rs', out) ->
  D rs j p = true -> D rs' j p = true.
Proof. exact C05_monotone_lemma. Qed.

(* well-formedness (hence both theorems above) holds at every point of every history, including
   histories that interleave writes with bitmap resets *)
Theorem C05_history_wf : forall hm ss rs, wf rs -> wf (run_steps hm rs ss).
Proof. exact wf_history. Qed.

(* the accessor invariant behind it: after any derivation chain the bitmap base offset of the
   accessor equals its byte offset in the region, and it stays inside the region *)
Theorem C05_bm_base_tracks : forall r ds a a', r_size r < W64 -> acc_ok r a -> derive_chain a ds = Some a' -> acc_ok r a'.
Proof. exact chain_ok. Qed.

(* the implementation model satisfies the executable checker ok_C05 (the one that judges the REAL
   observations) on every history of every well-formed state; [view] is what the harness observes:
   the page bits of each region plus a two-page margin *)
Theorem C05_model_ok : forall hm ss rs, wf rs ->
  ok_hist ok_C05_step (map geom_of rs) (view rs) (map kind_of ss) (run_hist hm rs ss) = true.
Proof. exact C05_model_ok_lemma. Qed.

Example C05_nonvacuous :
  let r := {| r_start := 0; r_size := 20; r_ps := 7; r_tracked := true; r_dirty := [false; false; false] |} in
  wf [r] /\
  (let '(rs', out) := run_step 0 [r] (SAcc 0 [DSub 3 15; DOffset 2] (OWrite 4 8)) in
   o_effs out = [{| e_r := 0; e_woff := 13; e_wn := 4; e_moff := 13; e_mlen := 4 |}] /\
   map r_dirty rs' = [[false; true; true]]).
Proof.
  cbv zeta. split.
  - constructor; [|constructor]. unfold region_ok; cbn. split; [lia|]. split; [rewrite W64_val; lia|reflexivity].
  - vm_compute. split; reflexivity.
Qed.

Print Assumptions C05_sound.
Print Assumptions C05_monotone.
Print Assumptions C05_history_wf.
Print Assumptions C05_bm_base_tracks.
Print Assumptions C05_model_ok.
