(* C05 - No tracked write leaves its pages clean (dirty tracking is sound).  Statements only.
   Reading guide: a state is a list of regions (geometry + page set); [run_step] executes one
   library operation (through an accessor derived by ANY chain of sub-slicing from a region, or at
   guest-memory level) and returns the new state and the operation's effect list - one effect per
   (region, written byte range); [D rs j p] = page p of region j is reported dirty. *)
From VM Require Import Prelude.MachInt Prelude.Outcome Impl.Bitmap Impl.Dirty Spec.C05 Suite.C05 Proofs.C05 Proofs.C05ModelOk Proofs.LinkDirtyBitmap.

(* every byte an operation writes lies inside its region and on a page that the region's own
   bitmap reports dirty afterwards - for every page size, layout, operation, offset/length,
   derivation chain, tracked flavour *)
Theorem C05_sound : forall hm rs s rs' out, wf rs -> is_reset s = false -> run_step hm rs s = (rs', out) ->
  forall e, In e (o_effs out) -> forall r, nth_error rs (e_r e) = Some r -> r_tracked r = true ->
  forall i, e_woff e <= i < e_woff e + e_wn e ->
  i < r_size r /\ D rs' (e_r e) (i / r_ps r) = true.
Proof. exact C05_sound_lemma. Qed.

(* a later write never cleans a page: marks survive until an explicit reset *)
Theorem C05_monotone : forall hm rs s rs' out j p, wf rs -> is_reset s = false -> run_step hm rs s = (rs', out) ->
  D rs j p = true -> D rs' j p = true.
Proof. exact C05_monotone_lemma. Qed.

(* well-formedness (hence both theorems above) holds at every point of every history, including
   histories that interleave writes with bitmap resets *)
Theorem C05_history_wf : forall hm ss rs, wf rs -> wf (run_steps hm rs ss).
Proof. exact wf_history. Qed.

(* the accessor invariant behind it: after any derivation chain the bitmap base offset of the
   accessor equals its byte offset in the region, and it stays inside the region *)
Theorem C05_bm_base_tracks : forall r ds a a', r_size r < W64 -> acc_ok r a -> derive_chain a ds = Some a' -> acc_ok r a'.
Proof. exact chain_ok. Qed.

(* the implementation model satisfies the executable checker ok_C05 (the one that judges the REAL
   observations) on every history of every well-formed state; [view] is what the harness observes:
   the page bits of each region plus a two-page margin *)
Theorem C05_model_ok : forall hm ss rs, wf rs ->
  ok_hist ok_C05_step (map geom_of rs) (view rs) (map kind_of ss) (run_hist hm rs ss) = true.
Proof. exact C05_model_ok_lemma. Qed.

Example C05_nonvacuous :
  let r := {| r_start := 0; r_size := 20; r_ps := 7; r_tracked := true; r_dirty := [false; false; false] |} in
  wf [r] /\
  (let '(rs', out) := run_step 0 [r] (SAcc 0 [DSub 3 15; DOffset 2] (OWrite 4 8)) in
   o_effs out = [{| e_r := 0; e_woff := 13; e_wn := 4; e_moff := 13; e_mlen := 4 |}] /\
   map r_dirty rs' = [[false; true; true]]).
Proof.
  cbv zeta. split.
  - constructor; [|constructor]. unfold region_ok; cbn. split; [lia|]. split; [rewrite W64_val; lia|reflexivity].
  - vm_compute. split; reflexivity.
Qed.

(* a stream read that fails part-way reports at least everything it could have touched: the descriptor
   read that the kernel aborts with EFAULT after storing the bytes in front of region offset [fault]
   has ONE effect - written bytes [t0, fault), marked bytes the whole target [t0, t0+m) - so C05_sound
   covers every byte it changed although the call returned an error *)
Theorem C05_fault_read_effect : forall ri hm a cnt addr fault l, a_kind a = KSlice -> checked_sub (a_len a) addr = Some l ->
  let m := N.min l cnt in let t0 := a_off a + addr in
  m <> 0 -> fault < t0 + m ->
  run_sop ri hm a (OReadFromFdFault cnt addr fault) =
  {| o_ok := false; o_count := 0;
     o_effs := [{| e_r := ri; e_woff := t0; e_wn := fault - t0; e_moff := bm_at (a_bm a) addr; e_mlen := m |}] |}.
Proof. exact fault_read_effect_lemma. Qed.

Example C05_fault_nonvacuous :
  let r := {| r_start := 0; r_size := 8192; r_ps := 1024; r_tracked := true; r_dirty := repeat false 8 |} in
  wf [r] /\
  (let '(rs', out) := run_step 0 [r] (SAcc 0 [DSub 100 8000] (OReadFromFdFault 6000 3000 4096)) in
   o_ok out = false /\
   o_effs out = [{| e_r := 0; e_woff := 3100; e_wn := 996; e_moff := 3100; e_mlen := 5000 |}] /\
   map r_dirty rs' = [[false; false; false; true; true; true; true; true]]).
Proof.
  cbv zeta. split.
  - constructor; [|constructor]. unfold region_ok; cbn. split; [lia|]. split; [rewrite W64_val; lia|reflexivity].
  - vm_compute. repeat split.
Qed.

Print Assumptions C05_sound.
Print Assumptions C05_fault_read_effect.
Print Assumptions C05_monotone.
Print Assumptions C05_history_wf.
Print Assumptions C05_bm_base_tracks.
Print Assumptions C05_model_ok.

(* ---------------------------------------------------------------------------------------------
   LINK to C09 (Proofs/LinkDirtyBitmap.v): the theorems above are about regions whose bitmap is an
   abstract page list.  The following restate them for regions carrying the WORD-LEVEL AtomicBitmap
   model of Impl/Bitmap.v (Vec<AtomicU64> words, the fetch_or loop, BaseSlice wrapping offsets):
   [wregion] = geometry + option bitmap, [wrun_step] = run_step with every mark_dirty / reset
   executed by the Bitmap.v transcription, [abs_state] = the abstraction (pages_of each bitmap),
   [wwfs] = every bitmap satisfies C09's bm_inv and has the region's size / page size,
   [WD ws j i] = what dirty_at(i) answers on region j's bitmap. *)

(* the abstraction commutes with every step (same result, count and effect list) and the
   representation invariant is preserved: the word-level state is a refinement of Dirty.v's *)
Theorem C05_words_refine : forall hm ws s, wwfs ws ->
  wwfs (fst (wrun_step hm ws s)) /\
  run_step hm (abs_state ws) s = (abs_state (fst (wrun_step hm ws s)), snd (wrun_step hm ws s)).
Proof. exact wrun_step_refines_lemma. Qed.

(* ... along every history, resets included *)
Theorem C05_words_history : forall hm ss ws, wwfs ws ->
  wwfs (wrun_steps hm ws ss) /\ abs_state (wrun_steps hm ws ss) = run_steps hm (abs_state ws) ss.
Proof. exact words_history_lemma. Qed.

(* C05_sound on the word-level bitmap: every written byte i is inside its region and
   AtomicBitmap::dirty_at(i) answers true afterwards *)
Theorem C05_sound_words : forall hm ws s ws' out, wwfs ws -> is_reset s = false -> wrun_step hm ws s = (ws', out) ->
  forall e, In e (o_effs out) -> forall w b, nth_error ws (e_r e) = Some w -> w_bm w = Some b ->
  forall i, e_woff e <= i < e_woff e + e_wn e ->
  i < w_size w /\ WD ws' (e_r e) i = true.
Proof. exact C05_sound_words_lemma. Qed.

Theorem C05_monotone_words : forall hm ws s ws' out j i, wwfs ws -> is_reset s = false -> wrun_step hm ws s = (ws', out) ->
  WD ws j i = true -> WD ws' j i = true.
Proof. exact C05_monotone_words_lemma. Qed.

(* the accessor reached by any derivation chain marks / reads through a C09 view (a live route and
   a chain of BaseSlice::slice_at offsets folding, with wrap-around, to its a_bm): the (offset, len)
   of Dirty.v's effects are exactly what BaseSlice::mark_dirty hands to the inner AtomicBitmap *)
Theorem C05_accessor_marks_through_view : forall r ds a, derive_chain (root r) ds = Some a ->
  exists offs, a_bm a = chain_base 0 offs /\
    forall rt b rel n, Spec.C09.route_live rt = true ->
      view_mark_o rt (0 :: offs) b rel n = bm_mark_dirty_o b (bm_at (a_bm a) rel) n /\
      view_dirty_at_o rt (0 :: offs) b rel = bm_dirty_at_o b (bm_at (a_bm a) rel).
Proof. exact chain_bm_is_view. Qed.

Example C05_words_nonvacuous :
  let w := {| w_start := 0; w_size := 20; w_ps := 7; w_bm := Some (bm_new 20 7) |} in
  wwfs [w] /\ abs_state [w] = [{| r_start := 0; r_size := 20; r_ps := 7; r_tracked := true; r_dirty := [false; false; false] |}] /\
  (let '(ws', out) := wrun_step 0 [w] (SAcc 0 [DSub 3 15; DOffset 2] (OWrite 4 8)) in
   map (fun w => option_map bm_words (w_bm w)) ws' = [Some [6]] /\
   map (WD ws' 0) [0; 6; 7; 13; 14; 19; 20; 21] = [false; false; true; true; true; true; true; false]).
Proof.
  cbv zeta. split; [|split].
  - constructor; [|constructor]. apply (new_region_lemma 0 20 7); [lia|rewrite W64_val; lia].
  - vm_compute. reflexivity.
  - vm_compute. split; reflexivity.
Qed.

Print Assumptions C05_words_refine.
Print Assumptions C05_words_history.
Print Assumptions C05_sound_words.
Print Assumptions C05_monotone_words.
Print Assumptions C05_accessor_marks_through_view.

(* ================================================================== the order of store and mark
   (Proofs/C05Order.v).  An effect unfolds into two micro-events, [MWrite e; MMark e]: at every write
   site of the crate the bytes are stored first and mark_dirty is called afterwards (Impl/Dirty.v,
   micro).  A concurrent consumer of the dirty log resets bits (MReset / MResetAll) at arbitrary
   points BETWEEN micro-events. *)
From VM Require Proofs.C05Order.

(* In EVERY interleaving of the micro-events of an operation's effects with ANY sequence of bitmap
   resets: a byte stored by the operation that no LATER reset clears (its page) is on a dirty page at
   the end.  (A reset that comes later belongs to a consumer pass that then copies the page and sees
   the stored byte; a reset that came earlier cannot hide the store, because the mark follows it.) *)
Theorem C05_sound_under_interleaved_resets : forall rs es resets tr,
  wf rs -> effs_ok rs es ->
  Forall (fun ev => C05Order.is_reset_ev ev = true) resets ->
  C05Order.interleave (flat_map micro es) resets tr ->
  forall pre e post, tr = pre ++ MWrite e :: post ->
  forall r, nth_error rs (e_r e) = Some r -> r_tracked r = true ->
  forall i, e_woff e <= i < e_woff e + e_wn e ->
  (forall ev, In ev post -> C05Order.clears (r_ps r) (e_r e) (i / r_ps r) ev = false) ->
  D (apply_mevs rs tr) (e_r e) (i / r_ps r) = true.
Proof. exact C05Order.sound_under_interleaved_resets_lemma. Qed.

(* ... and the effect lists of every non-reset step of every well-formed state qualify *)
Theorem C05_step_effects_exact : forall hm rs s rs' out, wf rs -> is_reset s = false ->
  run_step hm rs s = (rs', out) -> rs' = apply_effs rs (o_effs out) /\ effs_ok rs (o_effs out).
Proof. exact step_effs. Qed.

(* what the probing bitmap of the harness counts - pages holding a byte stored after the last
   mark_dirty call that covers the page - is zero for every step of the model *)
Theorem C05_no_late_store : forall hm rs s rs' out, wf rs -> run_step hm rs s = (rs', out) ->
  late_of rs' (o_effs out) = 0.
Proof. exact C05Order.late_of_step_zero. Qed.

(* the order matters: with mark before store, one consumer pass in between leaves the stored bytes
   on a clean page; with the order of the code the same pass leaves the page dirty *)
Example C05_mark_first_is_unsound :
  let r := {| r_start := 0; r_size := 16; r_ps := 4; r_tracked := true; r_dirty := [false; false; false; false] |} in
  let e := {| e_r := 0%nat; e_woff := 5; e_wn := 2; e_moff := 5; e_mlen := 2 |} in
  wf [r] /\ effs_ok [r] [e] /\
  D (apply_mevs [r] [MMark e; MResetAll 0; MWrite e]) 0 1 = false /\
  D (apply_mevs [r] [MWrite e; MResetAll 0; MMark e]) 0 1 = true.
Proof. exact C05Order.mark_first_is_unsound. Qed.

Print Assumptions C05_sound_under_interleaved_resets.
Print Assumptions C05_step_effects_exact.
Print Assumptions C05_no_late_store.

(* slice-to-slice copies are steps of the same histories (SCopy: the accessor derived from one region,
   copied with copy_to_volatile_slice into a slice of any region): the DESTINATION's pages are marked *)
Example C05_copy_nonvacuous :
  let r0 := {| r_start := 0; r_size := 32; r_ps := 8; r_tracked := true; r_dirty := [false; false; false; false] |} in
  let r1 := {| r_start := 4096; r_size := 24; r_ps := 4; r_tracked := true; r_dirty := repeat false 6 |} in
  wf [r0; r1] /\
  (let '(rs', out) := run_step 0 [r0; r1] (SCopy 0 [DSub 3 10; DGetArr 2 2 3] 1 6 15) in
   o_ok out = true /\ o_count out = 6 /\
   o_effs out = [{| e_r := 1%nat; e_woff := 6; e_wn := 6; e_moff := 6; e_mlen := 6 |}] /\
   map r_dirty rs' = [[false; false; false; false]; [false; true; true; false; false; false]]).
Proof.
  cbv zeta. split.
  - constructor; [|constructor; [|constructor]]; unfold region_ok; cbn; (split; [lia|]); (split; [rewrite W64_val; lia|reflexivity]).
  - vm_compute. repeat split.
Qed.

(* ================================================================== every FIRST accessor of a region, and the region layer
   (Impl/Dirty.v root_acc / run_xstep, Proofs/C05Root.v).  The chains above start at region.as_volatile_slice().  The
   crate's other ways to a first accessor - MmapRegion::get_slice(o, n), GuestRegionMmap::get_slice, GuestMemory::get_slice,
   MmapRegion::get_ref / get_array_ref at a (page-unaligned) offset o - take their bitmap view at slice_at(o). *)
From VM Require Proofs.C05Root.

(* each such first accessor is the accessor the corresponding derivation from the whole-region slice gives *)
Theorem C05_root_accessor_is_chain : forall r k, root_acc r k = derive_chain (root r) (root_prefix k).
Proof. exact C05Root.root_acc_prefix. Qed.

(* the accessor invariant from EVERY root: bitmap base = byte offset in the region, inside the region *)
Theorem C05_root_bm_base_tracks : forall r k ds a0 a', r_size r < W64 ->
  root_acc r k = Some a0 -> derive_chain a0 ds = Some a' -> acc_ok r a'.
Proof. exact C05Root.root_chain_ok. Qed.

(* an extended step (any root kind; guest-memory get_slice; an op on the REGION layer = the same op on the region's
   whole slice, src/mmap/mod.rs; a copy into the region's own get_slice) is a base step: C05_sound, C05_monotone,
   C16_precise ... apply to it through [lower] *)
Theorem C05_xstep_is_step : forall hm rs x, run_xstep hm rs x = run_step hm rs (lower rs x).
Proof. exact C05Root.run_xstep_lower. Qed.

(* histories of extended steps: what the suite runs (base history of the steps lowered against the initial
   geometry) is the extended history, and it satisfies the checker *)
Theorem C05_xhist_is_suite_model : forall hm xs rs, wf rs ->
  C05Root.run_xhist hm rs xs = run_hist hm rs (map (lower rs) xs).
Proof. exact C05Root.xhist_is_suite_model. Qed.

Theorem C05_xmodel_ok : forall hm xs rs, wf rs ->
  ok_hist ok_C05_step (map geom_of rs) (view rs) (map kind_of (map (lower rs) xs)) (C05Root.run_xhist hm rs xs) = true.
Proof. exact C05Root.C05_xmodel_ok_lemma. Qed.

Example C05_root_nonvacuous :
  let r := {| r_start := 4096; r_size := 8192; r_ps := 4096; r_tracked := true; r_dirty := [false; false] |} in
  wf [r] /\
  (* 16 bytes through gm.get_slice(GuestAddress(4096 + 4088), 16): region bytes 4088..4103, pages 0 AND 1 *)
  (let '(rs', out) := run_xstep 0 [r] (XGm 8184 16 [] (OWrite 16 0)) in
   o_effs out = [{| e_r := 0; e_woff := 4088; e_wn := 16; e_moff := 4088; e_mlen := 16 |}] /\
   map r_dirty rs' = [[true; true]]) /\
  (let '(rs', out) := run_xstep 0 [r] (XRoot 0 (RMapArr 6136 8 4) [DRefAt 1] ORefStore) in
   o_effs out = [{| e_r := 0; e_woff := 6144; e_wn := 8; e_moff := 6144; e_mlen := 8 |}] /\
   map r_dirty rs' = [[false; true]]).
Proof.
  cbv zeta. split; [|split].
  - constructor; [|constructor]. unfold region_ok; cbn. split; [lia|]. split; [rewrite W64_val; lia|reflexivity].
  - vm_compute. split; reflexivity.
  - vm_compute. split; reflexivity.
Qed.

Print Assumptions C05_root_accessor_is_chain.
Print Assumptions C05_root_bm_base_tracks.
Print Assumptions C05_xstep_is_step.
Print Assumptions C05_xhist_is_suite_model.
Print Assumptions C05_xmodel_ok.
