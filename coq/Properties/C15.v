(* C15 - property theorems (statements only). *)
From VM Require Import Prelude.MachInt Prelude.Outcome Impl.MmapBuild Spec.C15 Suite.C15 Proofs.C15.

Theorem C15_guest_region_new_iff : forall g b,
  (exists l, guest_region_new g b = (Ok (g, b), l)) <-> b + g_size g < W64.
Proof. exact guest_region_new_iff_lemma. Qed.

Print Assumptions C15_guest_region_new_iff.
