(* C15 - property theorems.  Statements only: each is closed by [exact] of a lemma from
   Proofs/C15.v and followed by Print Assumptions.
   Partial claim: the theorems are about the transcription coq/Impl/MmapBuild.v + coq/Impl/Xen.v, with
   the answers of the operating system (file size, mmap granted or refused, page size, ioctl accepted
   or refused) as universally quantified inputs; that the kernel's MAP_SHARED mapping of (file,
   offset, size) is coherent with the file is OS behaviour: tested by the harness, not proved. *)
From VM Require Import Prelude.MachInt Prelude.Outcome Impl.MmapBuild Impl.Xen Spec.C15 Suite.C15 Proofs.C15 Proofs.C15ModelOk Proofs.C15XenOk.

(* the implementation model satisfies the executable spec checker on EVERY well-formed request of the
   standard build: any constructor kind, size, prot, flags, file length and offset, pointer, guest
   base, power-of-two page size, and either answer of the kernel to the mmap (probe 0 / 1; probe 2 =
   "not probed" only where the harness does not probe: external pointer or explicit MAP_FIXED), and any
   hugetlbfs hint given to the builder (not given / false / true; the other constructors cannot carry one) *)
Theorem C15_model_ok : forall c probe k,
  kind_ok (c_kind c) (match c_file c with Some _ => true | None => false end)
          (match c_raw c with Some _ => true | None => false end)
          (match c_base c with Some _ => true | None => false end) = true ->
  huge_ok (c_kind c) (c_huge c) = true ->
  c_page c = 2 ^ k ->
  (probe = 0 \/ probe = 1 \/
   (probe = 2 /\ (c_raw c <> None \/ (explicit_flags c = true /\ hasbit (c_flags c) 16 = true)))) ->
  ok_C15 c (run_C15 c probe) = true.
Proof. exact C15_model_ok_lemma. Qed.

(* the Xen implementation model satisfies the executable checker ok_C15x on EVERY well-formed request:
   any flag word, size, file / offset, prot, flags, guest address and base, page size, either answer of
   the kernel to the mmap (probe) and of the hypervisor interface to the ioctls.  Well-formed: for
   foreign/grant types fewer than 2^32 pages (the ioctl count is a u32); probe = 2 ("not probed")
   exactly where the harness does not probe (MAP_FIXED, refused flag word, on-demand grant, foreign/
   grant without a file at offset 0); the kernel refuses an empty mmap.  The one excluded class is the
   candidate finding of suite C15xenfind (grant mapped in advance, map ioctl accepted, mmap refused:
   the grant mapping stays in the device, C15_xen_grant_leak_witness). *)
Theorem C15x_model_ok : forall c probe,
  (0 < cx_page c /\ cx_mflags c < 2 ^ 32 /\
   ((cx_mflags c = 1 \/ cx_mflags c = 2) ->
      cx_size c + cx_page c < W64 /\ cx_size c + cx_page c <= 4294967296 * cx_page c) /\
   (probe = 0 \/ probe = 1 \/ probe = 2) /\
   (cx_mflags c = 10 -> probe = 2) /\
   (probe = 2 -> match cx_flags c with Some f => hasbit f 16 | None => false end = true \/
                 xen_type_ok (cx_mflags c) = false \/ cx_mflags c = 10 \/
                 ((cx_mflags c = 1 \/ cx_mflags c = 2) /\
                  match cx_file c with Some (_, 0) => False | _ => True end)) /\
   (cx_size c = 0 -> (cx_mflags c = 1 \/ cx_mflags c = 2) -> probe <> 1)) ->
  ~ (cx_mflags c = 2 /\ probe = 0 /\ cx_ioctl c = true /\ 0 < cx_size c /\
     match cx_flags c with Some f => hasbit f 16 | None => false end = false /\
     match cx_file c with Some (_, 0) => True | _ => False end) ->
  ok_C15x c (run_C15x c probe) = true.
Proof. exact C15x_model_ok_lemma. Qed.

(* build_ok_iff: MmapRegionBuilder::build accepts EXACTLY the safe requests (and then returns the
   requested region): an external pointer iff it is page aligned; otherwise iff MAP_FIXED (bit 4) is
   clear, the file range neither overflows nor extends past EOF, and the kernel grants the mmap - the
   hugetlbfs hint of the request (q_huge, any value) does not occur in the condition and is handed on *)
Theorem C15_build_ok_iff : forall m o q k, os_page o = 2 ^ k ->
  (exists l, build m o q =
     Val (Ok {| g_addr := q_raw q; g_size := q_size q; g_prot := q_prot q; g_flags := q_flags q;
                g_file := q_file q; g_owned := match q_raw q with None => true | Some _ => false end;
                g_huge := q_huge q |}, l))
  <->
  match q_raw q with
  | Some addr => addr mod os_page o = 0
  | None =>
      N.testbit (q_flags q) 4 = false /\
      match q_file q with
      | Some start => start + q_size q < W64 /\ start + q_size q <= os_filesize o
      | None => True end /\
      os_mmap_ok o = true
  end.
Proof. exact build_ok_iff_lemma. Qed.

(* reports_request: whatever build returns as Ok reports exactly the requested size, protection,
   flags, file and offset and the hugetlbfs label it was given, owns the mapping iff it made it, and the last OS call is the mmap of
   exactly (size, prot, flags, file, offset) - so that, by the kernel's MAP_SHARED contract, byte i
   of a shared file-backed region is byte offset+i of the file *)
Theorem C15_reports_request : forall m o q g l, build m o q = Val (Ok g, l) ->
  g_size g = q_size q /\ g_prot g = q_prot q /\ g_flags g = q_flags q /\ g_file g = q_file q /\
  g_addr g = q_raw q /\ g_owned g = (match q_raw q with None => true | Some _ => false end) /\
  g_huge g = q_huge q /\
  match q_raw q with
  | Some _ => l = []
  | None => exists l1, mm_balance l1 = 0%Z /\
      l = l1 ++ [EvMmap (q_size q) (q_prot q) (q_flags q)
                        (match q_file q with Some _ => true | None => false end)
                        (match q_file q with Some s => s | None => 0 end) true]
  end.
Proof. exact reports_request_full_lemma. Qed.

(* the hugetlbfs hint never decides: the same request with ANY other hint (none / false / true) fails with
   the same error and the same OS calls, or succeeds with the same OS calls and the same region up to the
   label, or panics at the same site - in particular check_file_offset is run whatever the hint says *)
Theorem C15_hint_never_decides : forall m o q h,
  (forall e l, build m o q = Val (Err e, l) <-> build m o (with_huge q h) = Val (Err e, l)) /\
  (forall g l, build m o q = Val (Ok g, l) -> build m o (with_huge q h) = Val (Ok (region_with_huge g h), l)) /\
  (forall g' l, build m o (with_huge q h) = Val (Ok g', l) ->
                exists g, build m o q = Val (Ok g, l) /\ g' = region_with_huge g h) /\
  (forall s, build m o q = Panic s <-> build m o (with_huge q h) = Panic s).
Proof. exact hint_never_decides_lemma. Qed.

(* ... so a file range that extends past the end of the file, or overflows, is refused under every hint *)
Theorem C15_hint_past_eof_refused : forall m o q start h, q_raw q = None -> q_file q = Some start ->
  N.testbit (q_flags q) 4 = false -> q_huge q = h ->
  (start + q_size q < W64 -> os_filesize o < start + q_size q ->
     exists l, build m o q = Val (Err MappingPastEof, l)) /\
  (W64 <= start + q_size q -> exists l, build m o q = Val (Err InvalidOffsetLength, l)).
Proof. exact hint_past_eof_refused_lemma. Qed.

(* fail_maps_nothing: a failed construction leaves nothing mapped (successful mmaps and munmaps in
   the effect log balance), for the builder and for GuestRegionMmap::from_range - where the region
   already mapped is dropped again when guest base + size leaves the address space *)
Theorem C15_fail_maps_nothing : forall m o,
  (forall q e l, build m o q = Val (Err e, l) -> mm_balance l = 0%Z) /\
  (forall base size file e l, from_range m o base size file = Val (Err e, l) -> mm_balance l = 0%Z) /\
  (forall q g l, build m o q = Val (Ok g, l) -> mm_balance (l ++ drop_region g) = 0%Z).
Proof. exact fail_maps_nothing_lemma. Qed.

(* the decision of ALL six constructor calls the suite exercises (builder, MmapRegion::new / from_file /
   build / build_raw, GuestRegionMmap::from_range, each optionally followed by GuestRegionMmap::new)
   in closed form: the request of the call (q_of: the documented default prot/flags for the
   convenience constructors) goes through the decision list of build_result - misaligned pointer,
   MAP_FIXED, file range overflow, past EOF, mmap refused, in this order - and then through the guest
   base + size test, where a region already mapped is unmapped again *)
Theorem C15_constructors_decision : forall c o k, wf15 c -> os_page o = 2 ^ k ->
  construct c o = Val (post (build_result o (q_of c)) (c_base c)).
Proof. exact construct_cases. Qed.

(* GuestRegionMmap::new accepts iff guest base + size stays inside the 64-bit address space *)
Theorem C15_guest_region_new_iff : forall g b,
  (exists l, guest_region_new g b = (Ok (g, b), l)) <-> b + g_size g < W64.
Proof. exact guest_region_new_iff_lemma. Qed.

(* check_file_offset: the three outcomes, exactly *)
Theorem C15_check_file_offset_exact : forall o start size,
  (fst (check_file_offset o start size) = Ok tt <-> start + size < W64 /\ start + size <= os_filesize o) /\
  (fst (check_file_offset o start size) = Err InvalidOffsetLength <-> W64 <= start + size) /\
  (fst (check_file_offset o start size) = Err MappingPastEof <->
     start + size < W64 /\ os_filesize o < start + size) /\
  mm_balance (snd (check_file_offset o start size)) = 0%Z.
Proof. exact check_file_offset_spec. Qed.

(* xen_flags_valid_iff: of all 2^32 mapping-type words, from_bits + is_valid accept exactly
   UNIX (0), FOREIGN (1), GRANT (2) and GRANT|NO_ADVANCE_MAP (0xA).  Proof: a bit lemma (no bit outside
   0xB => w < 16) and a vm_compute sweep of the 16 remaining words lifted with forallb_forall. *)
Theorem C15_xen_flags_valid_iff : forall w, w < 2 ^ 32 ->
  ((match from_bits w with Some f => is_valid f | None => false end) = true
   <-> w = 0 \/ w = 1 \/ w = 2 \/ w = 10).
Proof. exact xen_flags_valid_iff_lemma. Qed.

(* validate_file_iff: foreign and grant mappings need a backing file at offset 0 *)
Theorem C15_validate_file_iff : forall f,
  (forall s, validate_file f = Ok s <-> f = Some 0 /\ s = 0) /\
  (validate_file f = Err InvalidFileOffset <-> f = None) /\
  (validate_file f = Err InvalidOffsetLength <-> exists s, f = Some s /\ s <> 0) /\
  (forall e, validate_file f = Err e -> e = InvalidFileOffset \/ e = InvalidOffsetLength).
Proof. exact validate_file_iff_lemma. Qed.

(* Xen: a failed MmapRegion::from_range leaves no memory mapped (also when the privcmd ioctl fails
   after the mmap: matched by a munmap), and dropping a region releases its mapping *)
Theorem C15_xen_fail_maps_nothing : forall m o r,
  (forall e l, xen_from_range m o r = Val (Err e, l) -> mm_balance l = 0%Z) /\
  (forall g l ld, xen_from_range m o r = Val (Ok g, l) -> xen_drop m o g = Val ld ->
                  mm_balance (l ++ ld) = 0%Z).
Proof. exact xen_fail_maps_nothing_full_lemma. Qed.

(* Xen: unknown / contradictory flag words and MAP_FIXED are refused before any OS call *)
Theorem C15_xen_refuses_early : forall m o r,
  ((match from_bits (x_mflags r) with Some f => is_valid f | None => false end) = false ->
   (forall fl, x_flags r = Some fl -> N.testbit fl 4 = false) ->
   xen_from_range m o r = Val (Err MmapFlags, [])) /\
  (forall fl, x_flags r = Some fl -> N.testbit fl 4 = true -> xen_from_range m o r = Val (Err MapFixed, [])).
Proof. exact xen_refuses_early_lemma. Qed.

(* observation (candidate finding, suite C15xenfind): a grant region mapped in advance whose mmap is
   refused after the map ioctl was accepted fails with Mmap and leaves the grant mapping (index,
   count) in the device - memory balance 0, device balance 1 *)
Theorem C15_xen_grant_leak_witness :
  let o := {| os_page := 4096; os_filesize := 0; os_mmap_ok := false; os_ioctl_ok := true |} in
  let r := {| x_size := 8192; x_file := Some 0; x_prot := None; x_flags := Some 0; x_addr := 65536;
              x_mflags := 2; x_mdata := 0 |} in
  exists l, xen_from_range Debug o r = Val (Err MmapErr, l) /\ live_after [] l = [(65536, 2)].
Proof. exact xen_grant_leak_witness_lemma. Qed.

(* non-vacuity: a mapping ending exactly at EOF is accepted, one byte more is refused, MAP_FIXED is
   refused, a misaligned external pointer is refused, an aligned one accepted *)
Example C15_nonvacuous :
  let o := {| os_page := 4096; os_filesize := 8192; os_mmap_ok := true; os_ioctl_ok := true |} in
  let qh s f r h := {| q_size := s; q_prot := 3; q_flags := f; q_file := Some 4096; q_raw := r; q_huge := h |} in
  let q s f r := qh s f r None in
  (exists g l, build Debug o (q 4096 1 None) = Val (Ok g, l) /\ g_owned g = true) /\
  (exists l, build Debug o (q 4097 1 None) = Val (Err MappingPastEof, l)) /\
  (exists l, build Debug o (qh 4097 1 None (Some true)) = Val (Err MappingPastEof, l)) /\
  (exists g l, build Debug o (qh 4096 1 None (Some true)) = Val (Ok g, l) /\ g_huge g = Some true) /\
  build Debug o (q 4096 17 None) = Val (Err MapFixed, []) /\
  build Debug o (q 4096 1 (Some 4097)) = Val (Err InvalidPointer, []) /\
  (exists g, build Debug o (q 4096 1 (Some 8192)) = Val (Ok g, []) /\ g_owned g = false).
Proof. vm_compute. repeat split; repeat eexists. Qed.

Print Assumptions C15_model_ok.
Print Assumptions C15x_model_ok.
Print Assumptions C15_build_ok_iff.
Print Assumptions C15_reports_request.
Print Assumptions C15_hint_never_decides.
Print Assumptions C15_hint_past_eof_refused.
Print Assumptions C15_fail_maps_nothing.
Print Assumptions C15_constructors_decision.
Print Assumptions C15_guest_region_new_iff.
Print Assumptions C15_check_file_offset_exact.
Print Assumptions C15_xen_flags_valid_iff.
Print Assumptions C15_validate_file_iff.
Print Assumptions C15_xen_fail_maps_nothing.
Print Assumptions C15_xen_refuses_early.
Print Assumptions C15_xen_grant_leak_witness.
