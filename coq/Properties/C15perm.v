(* C15, standard build: the mapping that is MADE carries exactly the protection and flags that were requested and
   that the region reports (suite C15perm, 0.7.w5).  Statements only; proofs in Proofs/C15perm.v.  What the kernel
   then shows for that mmap call (permission column of /proc/self/maps) is OS behaviour: observed by the harness. *)
From VM Require Import Prelude.MachInt Prelude.Outcome Impl.MmapBuild Spec.C15 Suite.C15
  Spec.C15perm Suite.C15perm Proofs.C15ModelOk Proofs.C15perm.

(* the transcription satisfies the executable checker ok_C15perm on EVERY well-formed request (constructor kinds
   0-3 and 5, any size / prot / flags / file / offset / page size, either answer of the kernel) *)
Theorem C15perm_model_ok : forall c probe, wf_p c = true -> probe_wf_p c probe ->
  ok_C15perm c (run_C15perm c probe) = true.
Proof. exact C15perm_model_ok_lemma. Qed.

(* MmapRegionBuilder::build without an external pointer: on success the region reports the requested protection
   and flags AND the first (only) successful mmap of the effect log was issued with exactly these two words *)
Theorem C15_build_maps_what_it_reports : forall m o q g l, q_raw q = None -> build m o q = Val (Ok g, l) ->
  g_prot g = q_prot q /\ g_flags g = q_flags q /\ mmap_args l = Some (q_prot q, q_flags q).
Proof. exact build_args. Qed.

(* the same through every constructor that maps (builder, new, from_file, build, GuestRegionMmap::from_range) *)
Theorem C15_constructors_map_what_they_report : forall c o g b l, c_raw c = None ->
  (c_kind c = 5 \/ (c_base c = None /\ c_kind c < 4)) ->
  construct c o = Val (Ok (g, b), l) -> mmap_args l = Some (g_prot g, g_flags g).
Proof. exact construct_args. Qed.

(* non-vacuity: a PROT_NONE private anonymous request is mapped with protection 0 (reported 0, shown ---p),
   a write-only shared file request with protection 2 and MAP_SHARED *)
Example C15perm_nonvacuous :
  run_C15perm {| cp_mode := Debug; cp_kind := 0; cp_size := 4096; cp_prot := 0; cp_flags := 34; cp_file := None;
                 cp_page := 4096 |} 1 =
    {| op_probe := 1; op_res := 0; op_prot := 0; op_flags := 34; op_mprot := 0 |} /\
  run_C15perm {| cp_mode := Debug; cp_kind := 3; cp_size := 4096; cp_prot := 2; cp_flags := 1;
                 cp_file := Some (8192, 4096); cp_page := 4096 |} 1 =
    {| op_probe := 1; op_res := 0; op_prot := 2; op_flags := 1; op_mprot := 10 |}.
Proof. vm_compute. split; reflexivity. Qed.

Print Assumptions C15perm_model_ok.
Print Assumptions C15_build_maps_what_it_reports.
Print Assumptions C15_constructors_map_what_they_report.
