(* C03 - Guest memory reads and writes behave like one flat sparse byte array.
   Statements only; every proof is [exact] of a lemma of Proofs/C03.v.

   Vocabulary: rd M a (Proofs/C03.v) is the flat reading of a guest memory M (one byte list per
   region): the byte of the region that owns address a, None in a hole.  is_run L a n k: k is the
   length of the longest run of consecutively mapped addresses starting at a, capped at n (unique:
   C03_run_unique).  in_range a k x := a <= x < a+k.  count_result k = Ok k, or the
   invalid-address error when k = 0; exact_result n k = Ok(()) when k = n, PartialBuffer{n,k}
   otherwise (invalid-address error when k = 0).
   As in C02 the theorems hold for EVERY implementor relying on the provided methods (arbitrary
   find_region meeting find_ok under an invariant implying wf_layout_gen: regions may end exactly
   at 2^64, sit at 0, be in any order), any number and size of regions, any address, any buffer,
   both build profiles (mode m).  Every "= Val ..." also says: no panic, and the loop fuel
   (number of regions + 1; + 2 for a short in-memory source) is never exhausted. *)
From VM Require Import Prelude.MachInt Prelude.Outcome Impl.Address Impl.Guest Spec.C03 Suite.C03 Proofs.C02 Proofs.C03.

(* writing a non-empty buffer stores, in order, exactly the first k bytes on the run starting at
   addr - each byte in the region and offset that owns its address, across region boundaries -,
   reports k (invalid address iff the first byte is unmapped), and changes nothing else *)
Theorem C03_write_refines_flat : forall (find : layout -> N -> option nat) (inv : layout -> Prop),
  (forall L, inv L -> wf_layout_gen L) ->
  (forall L a, inv L -> a < W64 -> find_ok L a (find L a)) ->
  forall m M buf addr, inv (shape M) -> lenN buf < W64 -> addr < W64 -> buf <> [] ->
  exists M' k, gm_write find m M buf addr = Val (M', count_result k) /\
    is_run (shape M) addr (lenN buf) k /\ shape M' = shape M /\
    forall x, x < W64 -> rd M' x = if in_range addr k x then nth_error buf (N.to_nat (x - addr)) else rd M x.
Proof. exact gm_write_lemma. Qed.

(* no byte outside [addr, addr + len) changes, whatever the outcome (also for the empty buffer) *)
Theorem C03_write_frame : forall (find : layout -> N -> option nat) (inv : layout -> Prop),
  (forall L, inv L -> wf_layout_gen L) ->
  (forall L a, inv L -> a < W64 -> find_ok L a (find L a)) ->
  forall m M buf addr, inv (shape M) -> lenN buf < W64 -> addr < W64 ->
  exists M' r, gm_write find m M buf addr = Val (M', r) /\ shape M' = shape M /\
    forall x, x < W64 -> ~ (addr <= x < addr + lenN buf) -> rd M' x = rd M x.
Proof. exact write_frame_lemma. Qed.

(* reading a non-empty buffer delivers, in order, the k flat bytes of the run; the rest of the
   buffer keeps its contents *)
Theorem C03_read_refines_flat : forall (find : layout -> N -> option nat) (inv : layout -> Prop),
  (forall L, inv L -> wf_layout_gen L) ->
  (forall L a, inv L -> a < W64 -> find_ok L a (find L a)) ->
  forall m M buf0 addr, inv (shape M) -> lenN buf0 < W64 -> addr < W64 -> buf0 <> [] ->
  exists b k, gm_read find m M buf0 addr = Val (b, count_result k) /\
    is_run (shape M) addr (lenN buf0) k /\ length b = length buf0 /\
    forall j, nth_error b j = if N.of_nat j <? k then rd M (addr + N.of_nat j) else nth_error buf0 j.
Proof. exact gm_read_lemma. Qed.

Theorem C03_run_unique : forall L a n k1 k2, wf_layout_gen L -> is_run L a n k1 -> is_run L a n k2 -> k1 = k2.
Proof. exact is_run_unique. Qed.

(* the all-or-error forms succeed exactly when the whole range is mapped, and otherwise report how
   much was completed *)
Theorem C03_slice_forms_iff : forall (find : layout -> N -> option nat) (inv : layout -> Prop),
  (forall L, inv L -> wf_layout_gen L) ->
  (forall L a, inv L -> a < W64 -> find_ok L a (find L a)) ->
  forall m M buf addr, inv (shape M) -> lenN buf < W64 -> addr < W64 -> buf <> [] ->
  (exists M' r, gm_write_slice find m M buf addr = Val (M', r) /\
     (r = inl tt <-> all_mappedP (shape M) addr (lenN buf)) /\
     (forall e, r = inr e -> exists k, is_run (shape M) addr (lenN buf) k /\ k < lenN buf /\
         (e = EPartialBuffer (lenN buf) k \/ (k = 0 /\ e = EInvalidGuestAddress)))) /\
  (exists b r, gm_read_slice find m M buf addr = Val (b, r) /\
     (r = inl tt <-> all_mappedP (shape M) addr (lenN buf)) /\
     (forall e, r = inr e -> exists k, is_run (shape M) addr (lenN buf) k /\ k < lenN buf /\
         (e = EPartialBuffer (lenN buf) k \/ (k = 0 /\ e = EInvalidGuestAddress)))).
Proof. exact slice_forms_lemma. Qed.

(* ... with the same memory effect / delivered bytes as write / read *)
Theorem C03_write_slice_refines_flat : forall (find : layout -> N -> option nat) (inv : layout -> Prop),
  (forall L, inv L -> wf_layout_gen L) ->
  (forall L a, inv L -> a < W64 -> find_ok L a (find L a)) ->
  forall m M buf addr, inv (shape M) -> lenN buf < W64 -> addr < W64 -> buf <> [] ->
  exists M' k, gm_write_slice find m M buf addr = Val (M', exact_result (lenN buf) k) /\
    is_run (shape M) addr (lenN buf) k /\ shape M' = shape M /\
    forall x, x < W64 -> rd M' x = if in_range addr k x then nth_error buf (N.to_nat (x - addr)) else rd M x.
Proof. exact gm_write_slice_lemma. Qed.

Theorem C03_read_slice_refines_flat : forall (find : layout -> N -> option nat) (inv : layout -> Prop),
  (forall L, inv L -> wf_layout_gen L) ->
  (forall L a, inv L -> a < W64 -> find_ok L a (find L a)) ->
  forall m M buf0 addr, inv (shape M) -> lenN buf0 < W64 -> addr < W64 -> buf0 <> [] ->
  exists b k, gm_read_slice find m M buf0 addr = Val (b, exact_result (lenN buf0) k) /\
    is_run (shape M) addr (lenN buf0) k /\ length b = length buf0 /\
    forall j, nth_error b j = if N.of_nat j <? k then rd M (addr + N.of_nat j) else nth_error buf0 j.
Proof. exact gm_read_slice_lemma. Qed.

(* what was written is what is later read back, through every route *)
Theorem C03_obj_roundtrip : forall (find : layout -> N -> option nat) (inv : layout -> Prop),
  (forall L, inv L -> wf_layout_gen L) ->
  (forall L a, inv L -> a < W64 -> find_ok L a (find L a)) ->
  forall m M val addr M', inv (shape M) -> lenN val < W64 -> addr < W64 -> val <> [] ->
  gm_write_obj find m M val addr = Val (M', inl tt) ->
  gm_read_obj find m M' (lenN val) addr = Val (inl val) /\
  (forall buf0, length buf0 = length val ->
     gm_read_slice find m M' buf0 addr = Val (val, inl tt) /\
     gm_read find m M' buf0 addr = Val (val, inl (lenN val))).
Proof. exact obj_roundtrip_lemma. Qed.

(* atomic store / load: all-or-nothing; succeed exactly when the access lies in one region and is
   aligned in it (model assumption: region host bases are 8-byte aligned) *)
Theorem C03_atomic_store : forall (find : layout -> N -> option nat) (inv : layout -> Prop),
  (forall L, inv L -> wf_layout_gen L) ->
  (forall L a, inv L -> a < W64 -> find_ok L a (find L a)) ->
  forall M bytes addr, inv (shape M) -> addr < W64 -> 0 < lenN bytes -> lenN bytes < W64 ->
  exists M' r, gm_store find M bytes addr = Val (M', r) /\ shape M' = shape M /\
    (r = inl tt <-> atomic_okP (shape M) addr (lenN bytes)) /\
    (r = inl tt -> forall x, x < W64 ->
       rd M' x = if in_range addr (lenN bytes) x then nth_error bytes (N.to_nat (x - addr)) else rd M x) /\
    (forall e, r = inr e -> M' = M /\ (e = EInvalidGuestAddress <-> ~ Mapped (shape M) addr) /\
                            (e = EInvalidGuestAddress \/ e = EInvalidBackendAddress)).
Proof. exact gm_store_lemma. Qed.

Theorem C03_atomic_load : forall (find : layout -> N -> option nat) (inv : layout -> Prop),
  (forall L, inv L -> wf_layout_gen L) ->
  (forall L a, inv L -> a < W64 -> find_ok L a (find L a)) ->
  forall M sz addr, inv (shape M) -> addr < W64 -> 0 < sz -> sz < W64 ->
  exists r, gm_load find M sz addr = Val r /\
    ((exists d, r = inl d) <-> atomic_okP (shape M) addr sz) /\
    (forall d, r = inl d -> length d = N.to_nat sz /\
       forall j, nth_error d j = if N.of_nat j <? sz then rd M (addr + N.of_nat j) else None) /\
    (forall e, r = inr e -> (e = EInvalidGuestAddress <-> ~ Mapped (shape M) addr) /\
                            (e = EInvalidGuestAddress \/ e = EInvalidBackendAddress)).
Proof. exact gm_load_lemma. Qed.

(* stream transfers with in-memory streams: from a byte slice into guest memory (the run is
   additionally capped by the source length; the source advances by k) ... *)
Theorem C03_read_volatile_from_refines_flat : forall (find : layout -> N -> option nat) (inv : layout -> Prop),
  (forall L, inv L -> wf_layout_gen L) ->
  (forall L a, inv L -> a < W64 -> find_ok L a (find L a)) ->
  forall m M addr src count, inv (shape M) -> count < W64 -> addr < W64 -> lenN src < W64 ->
  exists M' k, gm_read_volatile_from find m M addr src count =
               Val ((M', skipn (N.to_nat k) src), stream_result find (shape M) addr k) /\
    is_run (shape M) addr (N.min count (lenN src)) k /\ shape M' = shape M /\
    forall x, x < W64 -> rd M' x = if in_range addr k x then nth_error src (N.to_nat (x - addr)) else rd M x.
Proof. exact gm_read_volatile_from_lemma. Qed.

(* ... and from guest memory into a growable sink: the k flat bytes of the run are appended *)
Theorem C03_write_volatile_to_refines_flat : forall (find : layout -> N -> option nat) (inv : layout -> Prop),
  (forall L, inv L -> wf_layout_gen L) ->
  (forall L a, inv L -> a < W64 -> find_ok L a (find L a)) ->
  forall m M addr dst count, inv (shape M) -> count < W64 -> addr < W64 ->
  exists d k, gm_write_volatile_to find m M addr dst count = Val (d, stream_result find (shape M) addr k) /\
    is_run (shape M) addr count k /\
    d = dst ++ skipn (length dst) d /\ length d = (length dst + N.to_nat k)%nat /\
    forall j, (j < N.to_nat k)%nat -> nth_error d (length dst + j) = rd M (addr + N.of_nat j).
Proof. exact gm_write_volatile_to_lemma. Qed.

(* the splitting loop never runs out of fuel and never panics, for any buffer incl. the empty one *)
Theorem C03_no_fuel : forall (find : layout -> N -> option nat) (inv : layout -> Prop),
  (forall L, inv L -> wf_layout_gen L) ->
  (forall L a, inv L -> a < W64 -> find_ok L a (find L a)) ->
  forall m M buf addr, inv (shape M) -> lenN buf < W64 -> addr < W64 ->
  (exists v, gm_write find m M buf addr = Val v) /\ (exists v, gm_read find m M buf addr = Val v) /\
  (exists v, gm_write_slice find m M buf addr = Val v) /\ (exists v, gm_read_slice find m M buf addr = Val v).
Proof. exact no_fuel_lemma. Qed.

Print Assumptions C03_write_refines_flat.
Print Assumptions C03_write_frame.
Print Assumptions C03_read_refines_flat.
Print Assumptions C03_run_unique.
Print Assumptions C03_slice_forms_iff.
Print Assumptions C03_write_slice_refines_flat.
Print Assumptions C03_read_slice_refines_flat.
Print Assumptions C03_obj_roundtrip.
Print Assumptions C03_atomic_store.
Print Assumptions C03_atomic_load.
Print Assumptions C03_read_volatile_from_refines_flat.
Print Assumptions C03_write_volatile_to_refines_flat.
Print Assumptions C03_no_fuel.
