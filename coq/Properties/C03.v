(* C03 - Guest memory reads and writes behave like one flat sparse byte array.
   Statements only; every proof is [exact] of a lemma of Proofs/C03.v.

   Vocabulary: rd M a (Proofs/C03.v) is the flat reading of a guest memory M (one byte list per
   region): the byte of the region that owns address a, None in a hole.  is_run L a n k: k is the
   length of the longest run of consecutively mapped addresses starting at a, capped at n (unique:
   C03_run_unique).  in_range a k x := a <= x < a+k.  count_result k = Ok k, or the
   invalid-address error when k = 0; exact_result n k = Ok(()) when k = n, PartialBuffer{n,k}
   otherwise (invalid-address error when k = 0).
   As in C02 the theorems hold for EVERY implementor relying on the provided methods (arbitrary
   find_region meeting find_ok under an invariant implying wf_layout_gen: regions may end exactly
   at 2^64, sit at 0, be in any order), any number and size of regions, any address, any buffer,
   both build profiles (mode m).  Every "= Val ..." also says: no panic, and the loop fuel
   (number of regions + 1; regions + source length + 2 for a source that may answer short) is never exhausted. *)
From VM Require Import Prelude.MachInt Prelude.Outcome Impl.Address Impl.Guest Spec.C03 Suite.C03 Proofs.C02 Proofs.C03.
From VM Require Import Impl.Mmap Proofs.LinkGuestMmap.

(* writing a non-empty buffer stores, in order, exactly the first k bytes on the run starting at
   addr - each byte in the region and offset that owns its address, across region boundaries -,
   reports k (invalid address iff the first byte is unmapped), and changes nothing else *)
Theorem C03_write_refines_flat : forall (find : layout -> N -> option nat) (inv : layout -> Prop),
  (forall L, inv L -> wf_layout_gen L) ->
  (forall L a, inv L -> a < W64 -> find_ok L a (find L a)) ->
  forall m M buf addr, inv (shape M) -> lenN buf < W64 -> addr < W64 -> buf <> [] ->
  exists M' k, gm_write find m M buf addr = Val (M', count_result k) /\
    is_run (shape M) addr (lenN buf) k /\ shape M' = shape M /\
    forall x, x < W64 -> rd M' x = if in_range addr k x then nth_error buf (N.to_nat (x - addr)) else rd M x.
Proof. exact gm_write_lemma. Qed.

(* no byte outside [addr, addr + len) changes, whatever the outcome (also for the empty buffer) *)
Theorem C03_write_frame : forall (find : layout -> N -> option nat) (inv : layout -> Prop),
  (forall L, inv L -> wf_layout_gen L) ->
  (forall L a, inv L -> a < W64 -> find_ok L a (find L a)) ->
  forall m M buf addr, inv (shape M) -> lenN buf < W64 -> addr < W64 ->
  exists M' r, gm_write find m M buf addr = Val (M', r) /\ shape M' = shape M /\
    forall x, x < W64 -> ~ (addr <= x < addr + lenN buf) -> rd M' x = rd M x.
Proof. exact write_frame_lemma. Qed.

(* reading a non-empty buffer delivers, in order, the k flat bytes of the run; the rest of the
   buffer keeps its contents *)
Theorem C03_read_refines_flat : forall (find : layout -> N -> option nat) (inv : layout -> Prop),
  (forall L, inv L -> wf_layout_gen L) ->
  (forall L a, inv L -> a < W64 -> find_ok L a (find L a)) ->
  forall m M buf0 addr, inv (shape M) -> lenN buf0 < W64 -> addr < W64 -> buf0 <> [] ->
  exists b k, gm_read find m M buf0 addr = Val (b, count_result k) /\
    is_run (shape M) addr (lenN buf0) k /\ length b = length buf0 /\
    forall j, nth_error b j = if N.of_nat j <? k then rd M (addr + N.of_nat j) else nth_error buf0 j.
Proof. exact gm_read_lemma. Qed.

Theorem C03_run_unique : forall L a n k1 k2, wf_layout_gen L -> is_run L a n k1 -> is_run L a n k2 -> k1 = k2.
Proof. exact is_run_unique. Qed.

(* the all-or-error forms succeed exactly when the whole range is mapped, and otherwise report how
   much was completed *)
Theorem C03_slice_forms_iff : forall (find : layout -> N -> option nat) (inv : layout -> Prop),
  (forall L, inv L -> wf_layout_gen L) ->
  (forall L a, inv L -> a < W64 -> find_ok L a (find L a)) ->
  forall m M buf addr, inv (shape M) -> lenN buf < W64 -> addr < W64 -> buf <> [] ->
  (exists M' r, gm_write_slice find m M buf addr = Val (M', r) /\
     (r = inl tt <-> all_mappedP (shape M) addr (lenN buf)) /\
     (forall e, r = inr e -> exists k, is_run (shape M) addr (lenN buf) k /\ k < lenN buf /\
         (e = EPartialBuffer (lenN buf) k \/ (k = 0 /\ e = EInvalidGuestAddress)))) /\
  (exists b r, gm_read_slice find m M buf addr = Val (b, r) /\
     (r = inl tt <-> all_mappedP (shape M) addr (lenN buf)) /\
     (forall e, r = inr e -> exists k, is_run (shape M) addr (lenN buf) k /\ k < lenN buf /\
         (e = EPartialBuffer (lenN buf) k \/ (k = 0 /\ e = EInvalidGuestAddress)))).
Proof. exact slice_forms_lemma. Qed.

(* ... with the same memory effect / delivered bytes as write / read *)
Theorem C03_write_slice_refines_flat : forall (find : layout -> N -> option nat) (inv : layout -> Prop),
  (forall L, inv L -> wf_layout_gen L) ->
  (forall L a, inv L -> a < W64 -> find_ok L a (find L a)) ->
  forall m M buf addr, inv (shape M) -> lenN buf < W64 -> addr < W64 -> buf <> [] ->
  exists M' k, gm_write_slice find m M buf addr = Val (M', exact_result (lenN buf) k) /\
    is_run (shape M) addr (lenN buf) k /\ shape M' = shape M /\
    forall x, x < W64 -> rd M' x = if in_range addr k x then nth_error buf (N.to_nat (x - addr)) else rd M x.
Proof. exact gm_write_slice_lemma. Qed.

Theorem C03_read_slice_refines_flat : forall (find : layout -> N -> option nat) (inv : layout -> Prop),
  (forall L, inv L -> wf_layout_gen L) ->
  (forall L a, inv L -> a < W64 -> find_ok L a (find L a)) ->
  forall m M buf0 addr, inv (shape M) -> lenN buf0 < W64 -> addr < W64 -> buf0 <> [] ->
  exists b k, gm_read_slice find m M buf0 addr = Val (b, exact_result (lenN buf0) k) /\
    is_run (shape M) addr (lenN buf0) k /\ length b = length buf0 /\
    forall j, nth_error b j = if N.of_nat j <? k then rd M (addr + N.of_nat j) else nth_error buf0 j.
Proof. exact gm_read_slice_lemma. Qed.

(* what was written is what is later read back, through every route *)
Theorem C03_obj_roundtrip : forall (find : layout -> N -> option nat) (inv : layout -> Prop),
  (forall L, inv L -> wf_layout_gen L) ->
  (forall L a, inv L -> a < W64 -> find_ok L a (find L a)) ->
  forall m M val addr M', inv (shape M) -> lenN val < W64 -> addr < W64 -> val <> [] ->
  gm_write_obj find m M val addr = Val (M', inl tt) ->
  gm_read_obj find m M' (lenN val) addr = Val (inl val) /\
  (forall buf0, length buf0 = length val ->
     gm_read_slice find m M' buf0 addr = Val (val, inl tt) /\
     gm_read find m M' buf0 addr = Val (val, inl (lenN val))).
Proof. exact obj_roundtrip_lemma. Qed.

(* atomic store / load: all-or-nothing; succeed exactly when the access lies in one region and is
   aligned in it (model assumption: region host bases are 8-byte aligned) *)
Theorem C03_atomic_store : forall (find : layout -> N -> option nat) (inv : layout -> Prop),
  (forall L, inv L -> wf_layout_gen L) ->
  (forall L a, inv L -> a < W64 -> find_ok L a (find L a)) ->
  forall M bytes addr, inv (shape M) -> addr < W64 -> 0 < lenN bytes -> lenN bytes < W64 ->
  exists M' r, gm_store find M bytes addr = Val (M', r) /\ shape M' = shape M /\
    (r = inl tt <-> atomic_okP (shape M) addr (lenN bytes)) /\
    (r = inl tt -> forall x, x < W64 ->
       rd M' x = if in_range addr (lenN bytes) x then nth_error bytes (N.to_nat (x - addr)) else rd M x) /\
    (forall e, r = inr e -> M' = M /\ (e = EInvalidGuestAddress <-> ~ Mapped (shape M) addr) /\
                            (e = EInvalidGuestAddress \/ e = EInvalidBackendAddress)).
Proof. exact gm_store_lemma. Qed.

Theorem C03_atomic_load : forall (find : layout -> N -> option nat) (inv : layout -> Prop),
  (forall L, inv L -> wf_layout_gen L) ->
  (forall L a, inv L -> a < W64 -> find_ok L a (find L a)) ->
  forall M sz addr, inv (shape M) -> addr < W64 -> 0 < sz -> sz < W64 ->
  exists r, gm_load find M sz addr = Val r /\
    ((exists d, r = inl d) <-> atomic_okP (shape M) addr sz) /\
    (forall d, r = inl d -> length d = N.to_nat sz /\
       forall j, nth_error d j = if N.of_nat j <? sz then rd M (addr + N.of_nat j) else None) /\
    (forall e, r = inr e -> (e = EInvalidGuestAddress <-> ~ Mapped (shape M) addr) /\
                            (e = EInvalidGuestAddress \/ e = EInvalidBackendAddress)).
Proof. exact gm_load_lemma. Qed.

(* stream transfers with in-memory streams: from a byte source that hands out at most chunk >= 1
   bytes per call (&[u8]: unbounded chunk; short reads otherwise) into guest memory - whatever the
   chunking, the run is only additionally capped by the source length and the source advances by k *)
Theorem C03_read_volatile_from_refines_flat : forall (find : layout -> N -> option nat) (inv : layout -> Prop),
  (forall L, inv L -> wf_layout_gen L) ->
  (forall L a, inv L -> a < W64 -> find_ok L a (find L a)) ->
  forall m M addr chunk src count, inv (shape M) -> count < W64 -> addr < W64 -> lenN src < W64 -> 0 < chunk ->
  exists M' k, gm_read_volatile_from find m M addr chunk src count =
               Val ((M', skipn (N.to_nat k) src), stream_result find (shape M) addr k) /\
    is_run (shape M) addr (N.min count (lenN src)) k /\ shape M' = shape M /\
    forall x, x < W64 -> rd M' x = if in_range addr k x then nth_error src (N.to_nat (x - addr)) else rd M x.
Proof. exact gm_read_volatile_from_lemma. Qed.

(* ... and from guest memory into a growable sink: the k flat bytes of the run are appended *)
Theorem C03_write_volatile_to_refines_flat : forall (find : layout -> N -> option nat) (inv : layout -> Prop),
  (forall L, inv L -> wf_layout_gen L) ->
  (forall L a, inv L -> a < W64 -> find_ok L a (find L a)) ->
  forall m M addr dst count, inv (shape M) -> count < W64 -> addr < W64 ->
  exists d k, gm_write_volatile_to find m M addr dst count = Val (d, stream_result find (shape M) addr k) /\
    is_run (shape M) addr count k /\
    d = dst ++ skipn (length dst) d /\ length d = (length dst + N.to_nat k)%nat /\
    forall j, (j < N.to_nat k)%nat -> nth_error d (length dst + j) = rd M (addr + N.of_nat j).
Proof. exact gm_write_volatile_to_lemma. Qed.

(* the splitting loop never runs out of fuel and never panics, for any buffer incl. the empty one *)
Theorem C03_no_fuel : forall (find : layout -> N -> option nat) (inv : layout -> Prop),
  (forall L, inv L -> wf_layout_gen L) ->
  (forall L a, inv L -> a < W64 -> find_ok L a (find L a)) ->
  forall m M buf addr, inv (shape M) -> lenN buf < W64 -> addr < W64 ->
  (exists v, gm_write find m M buf addr = Val v) /\ (exists v, gm_read find m M buf addr = Val v) /\
  (exists v, gm_write_slice find m M buf addr = Val v) /\ (exists v, gm_read_slice find m M buf addr = Val v).
Proof. exact no_fuel_lemma. Qed.

(* HISTORIES.  The flat machine (Proofs/C03.v, Part 4) has ONE partial function address -> byte as
   its state and defines every operation on it directly (the run is found by counting byte by
   byte; a write overwrites exactly the run; nothing else changes).  For every history of mixed
   writes / reads / slices / objects / atomics / in-memory stream transfers on any well-formed
   memory, the implementation model produces exactly the flat machine's observations, its final
   memory reads as the flat machine's final state, and the regions keep their shape. *)
Theorem C03_history_refines : forall m ops M, wf_layout_gen (shape M) -> Forall op_wf ops ->
  map strip (snd (hist_C03 m M ops)) = snd (flat_hist (shape M) ops (rd M)) /\
  (forall x, rd (fst (hist_C03 m M ops)) x = fst (flat_hist (shape M) ops (rd M)) x) /\
  shape (fst (hist_C03 m M ops)) = shape M.
Proof. exact history_refines_lemma. Qed.

(* the implementation model satisfies the executable checker on every history *)
Theorem C03_model_ok : forall c, wf_case03 c -> ok_C03 c (run_C03 c) = true.
Proof. exact C03_model_ok_lemma. Qed.

(* the checker's brute-force notions are the Prop-level ones: its run length is THE run, its
   flat reading is rd, and "memory = src stored at a, everything else equal" is list equality
   with what it computes *)
Theorem C03_checker_reading : forall M a n, wf_layout_gen (shape M) -> a < W64 ->
  is_run (shape M) a n (run (to_smem M) a n) /\
  (forall x, s_get (to_smem M) x = rd M x) /\
  (forall M' src, shape M' = shape M -> (forall x, rd M' x = fl_put (rd M) a src x) ->
     to_smem M' = s_put (to_smem M) a src).
Proof. exact checker_reading_lemma. Qed.

Example C03_nonvacuous :
  let M := [ {| rstart := W64 - 8; rbytes := [1;2;3;4;5;6;7;8] |};
             {| rstart := 0; rbytes := repeat 9 16 |}; {| rstart := 16; rbytes := [0;0;0;0] |} ] in
  wf_layout_gen (shape M) /\
  (exists M', gm_write find_lin Debug M [21;22;23;24;25;26;27;28;29;30;31;32] (W64 - 4) = Val (M', inl 4) /\
              rd M' 0 = Some 9 /\ rd M' (W64 - 1) = Some 24) /\
  (exists M', gm_write find_lin Debug M [41;42;43;44;45;46;47;48] 14 = Val (M', inl 6) /\
              rd M' 15 = Some 42 /\ rd M' 16 = Some 43 /\ rd M' 19 = Some 46 /\ rd M' 20 = None) /\
  gm_write_slice find_lin Debug M [1;2;3] 18 = Val (upd_nth M 2 {| rstart := 16; rbytes := [0;0;1;2] |}, inr (EPartialBuffer 3 2)).
Proof. exact C03_nonvacuous_lemma. Qed.

Print Assumptions C03_write_refines_flat.
Print Assumptions C03_write_frame.
Print Assumptions C03_read_refines_flat.
Print Assumptions C03_run_unique.
Print Assumptions C03_slice_forms_iff.
Print Assumptions C03_write_slice_refines_flat.
Print Assumptions C03_read_slice_refines_flat.
Print Assumptions C03_obj_roundtrip.
Print Assumptions C03_atomic_store.
Print Assumptions C03_atomic_load.
Print Assumptions C03_read_volatile_from_refines_flat.
Print Assumptions C03_write_volatile_to_refines_flat.
Print Assumptions C03_no_fuel.
Print Assumptions C03_history_refines.
Print Assumptions C03_model_ok.
Print Assumptions C03_checker_reading.

(* ---------------------------------------------------------------------------------------------
   LINK to C10 (Proofs/LinkGuestMmap.v; vocabulary in Properties/C02.v): every find/inv-generic
   theorem above, instantiated for the binary-search find_region of GuestMemoryMmap
   ([mmap_find_index]) under the invariant [mmap_inv] that C10 proves of every collection reached
   by any from_regions / insert_region / remove_region history. *)

(* flagship form, stated over construction histories of byte-carrying regions *)
Theorem C03_mmap_reachable_write : forall md m (M : mem) buf addr, reachable rstart rlen md M ->
  lenN buf < W64 -> addr < W64 -> buf <> [] ->
  exists M' k, gm_write mmap_find_index m M buf addr = Val (M', count_result k) /\
    is_run (shape M) addr (lenN buf) k /\ shape M' = shape M /\
    forall x, x < W64 -> rd M' x = if in_range addr k x then nth_error buf (N.to_nat (x - addr)) else rd M x.
Proof. exact mmap_reachable_write_lemma. Qed.

Theorem C03_mmap_write_refines_flat :
  forall m M buf addr, mmap_inv (shape M) -> lenN buf < W64 -> addr < W64 -> buf <> [] ->
  exists M' k, gm_write mmap_find_index m M buf addr = Val (M', count_result k) /\
    is_run (shape M) addr (lenN buf) k /\ shape M' = shape M /\
    forall x, x < W64 -> rd M' x = if in_range addr k x then nth_error buf (N.to_nat (x - addr)) else rd M x.
Proof. exact gm_write_lemma_mmap. Qed.

Theorem C03_mmap_write_frame :
  forall m M buf addr, mmap_inv (shape M) -> lenN buf < W64 -> addr < W64 ->
  exists M' r, gm_write mmap_find_index m M buf addr = Val (M', r) /\ shape M' = shape M /\
    forall x, x < W64 -> ~ (addr <= x < addr + lenN buf) -> rd M' x = rd M x.
Proof. exact write_frame_lemma_mmap. Qed.

Theorem C03_mmap_read_refines_flat :
  forall m M buf0 addr, mmap_inv (shape M) -> lenN buf0 < W64 -> addr < W64 -> buf0 <> [] ->
  exists b k, gm_read mmap_find_index m M buf0 addr = Val (b, count_result k) /\
    is_run (shape M) addr (lenN buf0) k /\ length b = length buf0 /\
    forall j, nth_error b j = if N.of_nat j <? k then rd M (addr + N.of_nat j) else nth_error buf0 j.
Proof. exact gm_read_lemma_mmap. Qed.

Theorem C03_mmap_slice_forms_iff :
  forall m M buf addr, mmap_inv (shape M) -> lenN buf < W64 -> addr < W64 -> buf <> [] ->
  (exists M' r, gm_write_slice mmap_find_index m M buf addr = Val (M', r) /\
     (r = inl tt <-> all_mappedP (shape M) addr (lenN buf)) /\
     (forall e, r = inr e -> exists k, is_run (shape M) addr (lenN buf) k /\ k < lenN buf /\
         (e = EPartialBuffer (lenN buf) k \/ (k = 0 /\ e = EInvalidGuestAddress)))) /\
  (exists b r, gm_read_slice mmap_find_index m M buf addr = Val (b, r) /\
     (r = inl tt <-> all_mappedP (shape M) addr (lenN buf)) /\
     (forall e, r = inr e -> exists k, is_run (shape M) addr (lenN buf) k /\ k < lenN buf /\
         (e = EPartialBuffer (lenN buf) k \/ (k = 0 /\ e = EInvalidGuestAddress)))).
Proof. exact slice_forms_lemma_mmap. Qed.

Theorem C03_mmap_write_slice_refines_flat :
  forall m M buf addr, mmap_inv (shape M) -> lenN buf < W64 -> addr < W64 -> buf <> [] ->
  exists M' k, gm_write_slice mmap_find_index m M buf addr = Val (M', exact_result (lenN buf) k) /\
    is_run (shape M) addr (lenN buf) k /\ shape M' = shape M /\
    forall x, x < W64 -> rd M' x = if in_range addr k x then nth_error buf (N.to_nat (x - addr)) else rd M x.
Proof. exact gm_write_slice_lemma_mmap. Qed.

Theorem C03_mmap_read_slice_refines_flat :
  forall m M buf0 addr, mmap_inv (shape M) -> lenN buf0 < W64 -> addr < W64 -> buf0 <> [] ->
  exists b k, gm_read_slice mmap_find_index m M buf0 addr = Val (b, exact_result (lenN buf0) k) /\
    is_run (shape M) addr (lenN buf0) k /\ length b = length buf0 /\
    forall j, nth_error b j = if N.of_nat j <? k then rd M (addr + N.of_nat j) else nth_error buf0 j.
Proof. exact gm_read_slice_lemma_mmap. Qed.

Theorem C03_mmap_obj_roundtrip :
  forall m M val addr M', mmap_inv (shape M) -> lenN val < W64 -> addr < W64 -> val <> [] ->
  gm_write_obj mmap_find_index m M val addr = Val (M', inl tt) ->
  gm_read_obj mmap_find_index m M' (lenN val) addr = Val (inl val) /\
  (forall buf0, length buf0 = length val ->
     gm_read_slice mmap_find_index m M' buf0 addr = Val (val, inl tt) /\
     gm_read mmap_find_index m M' buf0 addr = Val (val, inl (lenN val))).
Proof. exact obj_roundtrip_lemma_mmap. Qed.

Theorem C03_mmap_atomic_store :
  forall M bytes addr, mmap_inv (shape M) -> addr < W64 -> 0 < lenN bytes -> lenN bytes < W64 ->
  exists M' r, gm_store mmap_find_index M bytes addr = Val (M', r) /\ shape M' = shape M /\
    (r = inl tt <-> atomic_okP (shape M) addr (lenN bytes)) /\
    (r = inl tt -> forall x, x < W64 ->
       rd M' x = if in_range addr (lenN bytes) x then nth_error bytes (N.to_nat (x - addr)) else rd M x) /\
    (forall e, r = inr e -> M' = M /\ (e = EInvalidGuestAddress <-> ~ Mapped (shape M) addr) /\
                            (e = EInvalidGuestAddress \/ e = EInvalidBackendAddress)).
Proof. exact gm_store_lemma_mmap. Qed.

Theorem C03_mmap_atomic_load :
  forall M sz addr, mmap_inv (shape M) -> addr < W64 -> 0 < sz -> sz < W64 ->
  exists r, gm_load mmap_find_index M sz addr = Val r /\
    ((exists d, r = inl d) <-> atomic_okP (shape M) addr sz) /\
    (forall d, r = inl d -> length d = N.to_nat sz /\
       forall j, nth_error d j = if N.of_nat j <? sz then rd M (addr + N.of_nat j) else None) /\
    (forall e, r = inr e -> (e = EInvalidGuestAddress <-> ~ Mapped (shape M) addr) /\
                            (e = EInvalidGuestAddress \/ e = EInvalidBackendAddress)).
Proof. exact gm_load_lemma_mmap. Qed.

Theorem C03_mmap_read_volatile_from_refines_flat :
  forall m M addr chunk src count, mmap_inv (shape M) -> count < W64 -> addr < W64 -> lenN src < W64 -> 0 < chunk ->
  exists M' k, gm_read_volatile_from mmap_find_index m M addr chunk src count =
               Val ((M', skipn (N.to_nat k) src), stream_result mmap_find_index (shape M) addr k) /\
    is_run (shape M) addr (N.min count (lenN src)) k /\ shape M' = shape M /\
    forall x, x < W64 -> rd M' x = if in_range addr k x then nth_error src (N.to_nat (x - addr)) else rd M x.
Proof. exact gm_read_volatile_from_lemma_mmap. Qed.

Theorem C03_mmap_write_volatile_to_refines_flat :
  forall m M addr dst count, mmap_inv (shape M) -> count < W64 -> addr < W64 ->
  exists d k, gm_write_volatile_to mmap_find_index m M addr dst count = Val (d, stream_result mmap_find_index (shape M) addr k) /\
    is_run (shape M) addr count k /\
    d = dst ++ skipn (length dst) d /\ length d = (length dst + N.to_nat k)%nat /\
    forall j, (j < N.to_nat k)%nat -> nth_error d (length dst + j) = rd M (addr + N.of_nat j).
Proof. exact gm_write_volatile_to_lemma_mmap. Qed.

Theorem C03_mmap_no_fuel :
  forall m M buf addr, mmap_inv (shape M) -> lenN buf < W64 -> addr < W64 ->
  (exists v, gm_write mmap_find_index m M buf addr = Val v) /\ (exists v, gm_read mmap_find_index m M buf addr = Val v) /\
  (exists v, gm_write_slice mmap_find_index m M buf addr = Val v) /\ (exists v, gm_read_slice mmap_find_index m M buf addr = Val v).
Proof. exact no_fuel_lemma_mmap. Qed.

Print Assumptions C03_mmap_reachable_write.
Print Assumptions C03_mmap_write_refines_flat.
Print Assumptions C03_mmap_write_frame.
Print Assumptions C03_mmap_read_refines_flat.
Print Assumptions C03_mmap_slice_forms_iff.
Print Assumptions C03_mmap_write_slice_refines_flat.
Print Assumptions C03_mmap_read_slice_refines_flat.
Print Assumptions C03_mmap_obj_roundtrip.
Print Assumptions C03_mmap_atomic_store.
Print Assumptions C03_mmap_atomic_load.
Print Assumptions C03_mmap_read_volatile_from_refines_flat.
Print Assumptions C03_mmap_write_volatile_to_refines_flat.
Print Assumptions C03_mmap_no_fuel.

(* ---- the PUBLIC try_access with an arbitrary (scripted) callback: suite C03walk ---- *)
From VM Require Import Spec.C03walk Suite.C03walk Proofs.C03walk.

(* for every layout (any implementor), count, address and every script of callback answers of any length - honest,
   short, stalling, failing or over-reporting -, the call log and result of the transcribed try_access satisfy the
   walk checker *)
Theorem C03walk_model_ok : forall c, wf_walk c -> ok_C03walk c (run_C03walk c) = true.
Proof. exact C03walk_model_ok_lemma. Qed.

(* Prop reading: the walk never panics or runs out of fuel, and every chunk it offers to the callback sits at the
   exact address addr + K (K = the sum of the counts reported before; never a value wrapped around 2^64), in the
   region that owns this address, at that region's own offset *)
Theorem C03walk_never_wraps : forall c, wf_walk c ->
  wo_k (run_C03walk c) <> 3 /\ calls_exact (w_L c) (w_addr c) 0 (wo_calls (run_C03walk c)).
Proof. exact C03walk_never_wraps_lemma. Qed.

(* non-vacuity: a region at the top of the address space and one at 0; the callback over-reports so that the exact
   sum passes 2^64: two calls, then GuestAddressOverflow (class 7) - nothing is offered at the wrapped address 0x20 *)
Example C03walk_nonvacuous :
  let c := {| w_mode := Debug; w_L := [(W64 - 8, 8); (0, 64)]; w_count := W64 - 1; w_addr := W64 - 8;
              w_script := [(3, 4); (2, 36)] |} in
  wf_layout_gen (w_L c) /\ w_count c < W64 /\ w_addr c < W64 /\
  List.length (wo_calls (run_C03walk c)) = 2%nat /\ wo_k (run_C03walk c) = 2 /\ wo_v (run_C03walk c) = 7.
Proof. exact walk_nonvacuous_lemma. Qed.

Print Assumptions C03walk_model_ok.
Print Assumptions C03walk_never_wraps.
