(* C03 - property theorems (statements only). *)
From VM Require Import Prelude.MachInt Prelude.Outcome Impl.Address Impl.Guest Spec.C03 Suite.C03 Proofs.C02 Proofs.C03.

Theorem C03_linear_find_contract : forall L a, find_ok L a (find_lin L a).
Proof. exact find_lin_spec. Qed.

Print Assumptions C03_linear_find_contract.
