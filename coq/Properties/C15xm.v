(* C15, Xen build, WHAT WAS MAPPED (suite C15xm, 0.7.w9): the mmap call each Xen back end makes carries the
   requested protection and flags, and the privcmd request of a foreign range names the region's guest frames in
   order.  Statements only; proofs in Proofs/C15xm.v.
   Partial claim as for Properties/C15.v: that the kernel's mapping then shows these bits in /proc/self/maps and
   is (not) coherent with the file is OS behaviour, observed by the harness, not proved. *)
From VM Require Import Prelude.MachInt Prelude.Outcome Prelude.Tok Impl.MmapBuild Impl.Xen Spec.C15 Suite.C15
  Spec.C15xm Suite.C15xm Proofs.C15XenOk Proofs.C15xm.

(* the transcription satisfies the executable checker ok_C15xm on EVERY request (any mapping type word, size, file,
   protection, flags, guest address, domain, guest base, either answer of the kernel / the ioctl) *)
Theorem C15xm_model_ok : forall c probe, 0 < cx_page c -> ok_C15xm c (run_C15xm c probe) = true.
Proof. exact C15xm_model_ok_lemma. Qed.

(* MmapXen::new on the range from_range hands it (protection eprot, flags eflags = the requested or default ones):
   when it succeeds the mapping type is the requested word and
   - a foreign back end has logged exactly ONE mmap, of the page-rounded size, with the requested protection and
     flags | MAP_SHARED, followed by ONE accepted privcmd request for pages(size) frames;
   - any other back end that holds a mapping of its own (Xen-UNIX, grant mapped in advance) made its (last) mmap
     with exactly the requested protection and flags, and no privcmd request *)
Theorem C15_xen_mmap_args : forall m o c f k mp l, os_page o = cx_page c ->
  xen_new m o (range_e c) = Val (Ok (f, k, mp), l) ->
  f = cx_mflags c /\
  if is_foreign f then
    exists cnt tot, pages m (cx_page c) (cx_size c) = Val (cnt, tot) /\ mp = Some (tot, 0) /\
      l = [EvMmap tot (eprot c) (N.lor (eflags c) MAP_SHARED) true 0 true; EvIoctlForeign cnt true]
  else
    (forall b, fev_of c b l = []) /\ (forall x, mp = Some x -> last_mmap l = Some (eprot c, eflags c)).
Proof. exact xnew_shape. Qed.

(* the privcmd request of the model (MmapXenForeign::mmap_ioctl): domain = mmap_data as u16, exactly count frames,
   frame i = addr / page + i *)
Theorem C15_foreign_frames : forall ps r cnt,
  fst (foreign_req ps r cnt) = x_mdata r mod 65536 /\
  length (snd (foreign_req ps r cnt)) = N.to_nat cnt /\
  frames_from (x_addr r / ps) (snd (foreign_req ps r cnt)) = true.
Proof. exact foreign_req_frames. Qed.

(* non-vacuity: a 3-page foreign range at guest frame 10 of domain 7, requested PRIVATE and read-only, is mapped
   r--s and asks for frames 10, 11, 12; a Xen-UNIX file range requested PRIVATE with PROT_NONE is mapped ---p;
   the checker refuses a repeated frame, a shared mapping for a private request, and an added PROT_READ *)
Example C15xm_nonvacuous :
  let cf := {| cx_mode := Debug; cx_size := 12288; cx_file := Some (262144, 0); cx_prot := Some 1; cx_flags := Some 2;
               cx_addr := 40960; cx_mflags := 1; cx_mdata := 7; cx_base := None; cx_page := 4096; cx_ioctl := true |} in
  let cu := {| cx_mode := Debug; cx_size := 4096; cx_file := Some (262144, 0); cx_prot := Some 0; cx_flags := Some 2;
               cx_addr := 0; cx_mflags := 0; cx_mdata := 0; cx_base := None; cx_page := 4096; cx_ioctl := true |} in
  let cw := {| cx_mode := Debug; cx_size := 4096; cx_file := Some (262144, 0); cx_prot := Some 3; cx_flags := Some 2;
               cx_addr := 0; cx_mflags := 0; cx_mdata := 0; cx_base := None; cx_page := 4096; cx_ioctl := true |} in
  enc15m (run_C15xm cf 1) = [TN 1; TN 0; TN 1; TN 2; TN 0; TN 9; TN 2; TN 2; TL [7; 1; 3; 10; 11; 12]] /\
  enc15m (run_C15xm cu 1) = [TN 1; TN 0; TN 0; TN 2; TN 0; TN 0; TN 2; TN 2; TL []] /\
  enc15m (run_C15xm cw 1) = [TN 1; TN 0; TN 3; TN 2; TN 0; TN 3; TN 1; TN 0; TL []] /\
  ok_C15xm cf {| om_probe := 1; om_res := 0; om_prot := 1; om_flags := 2; om_ptrnull := false; om_mprot := 9;
                 om_coh1 := 2; om_coh2 := 2; om_fev := [7; 1; 3; 10; 10; 10] |} = false /\
  ok_C15xm cw {| om_probe := 1; om_res := 0; om_prot := 3; om_flags := 2; om_ptrnull := false; om_mprot := 11;
                 om_coh1 := 1; om_coh2 := 1; om_fev := [] |} = false /\
  ok_C15xm cu {| om_probe := 1; om_res := 0; om_prot := 0; om_flags := 2; om_ptrnull := false; om_mprot := 1;
                 om_coh1 := 2; om_coh2 := 2; om_fev := [] |} = false.
Proof. vm_compute. repeat split. Qed.

Print Assumptions C15xm_model_ok.
Print Assumptions C15_xen_mmap_args.
Print Assumptions C15_foreign_frames.
