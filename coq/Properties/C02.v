(* C02 - property theorems (statements only). *)
From VM Require Import Prelude.MachInt Prelude.Outcome Impl.Address Impl.Guest Spec.C02 Suite.C02 Proofs.C02.

Theorem C02_find_iff : forall (find : layout -> N -> option nat) (inv : layout -> Prop),
  (forall L, inv L -> wf_layout_gen L) ->
  (forall L a, inv L -> a < W64 -> find_ok L a (find L a)) ->
  forall L a i, inv L -> a < W64 ->
  (find L a = Some i <-> (i < length L)%nat /\ In_reg (nth i L dreg) a).
Proof. exact find_Some_iff. Qed.

Print Assumptions C02_find_iff.
