(* C02 - Guest address queries answer exactly according to the set of mapped regions.
   Statements only; every proof is [exact] of a lemma of Proofs/C02.v.

   Vocabulary (Proofs/C02.v): a layout is the list of (start, len) of the regions in collection
   order; In_reg p a := start <= a < start+len; Mapped L a := some region of L contains a;
   wf_layout_gen L := regions non-empty, len < 2^64, start+len <= 2^64 (a region may end exactly
   at the top of the address space), pairwise disjoint - no order, no bound on number or size.
   The theorems quantify over EVERY implementor of GuestMemory that relies on the provided
   methods: an arbitrary find_region `find`, an arbitrary implementor invariant `inv` that implies
   wf_layout_gen, and the contract find_ok (find returns a region containing the address, None iff
   there is none).  They are instantiated for the linear search (C02_linear_find_contract); the
   binary search of GuestMemoryMmap is an instance proved by the C10 package. *)
From VM Require Import Prelude.MachInt Prelude.Outcome Impl.Address Impl.Guest Spec.C02 Suite.C02 Proofs.C02.
From VM Require Import Impl.Mmap Proofs.LinkGuestMmap.

(* the model (provided methods over the linear find_region) satisfies the executable checker on
   every layout, every query and all arguments *)
Theorem C02_model_ok : forall c, wf_case02 c -> ok_C02 c (run_C02 c) = true.
Proof. exact C02_model_ok_lemma. Qed.

(* the linear find_region meets the contract on every layout whatsoever *)
Theorem C02_linear_find_contract : forall L a, find_ok L a (find_lin L a).
Proof. exact find_lin_spec. Qed.

(* an address resolves to the one region whose range contains it ... *)
Theorem C02_find_iff : forall (find : layout -> N -> option nat) (inv : layout -> Prop),
  (forall L, inv L -> wf_layout_gen L) ->
  (forall L a, inv L -> a < W64 -> find_ok L a (find L a)) ->
  forall L a i, inv L -> a < W64 ->
  (find L a = Some i <-> (i < length L)%nat /\ In_reg (nth i L dreg) a).
Proof. exact find_Some_iff. Qed.

(* ... and to nothing when it falls in a hole or beyond the ends *)
Theorem C02_find_none_iff : forall (find : layout -> N -> option nat) (inv : layout -> Prop),
  (forall L a, inv L -> a < W64 -> find_ok L a (find L a)) ->
  forall L a, inv L -> a < W64 -> (find L a = None <-> ~ Mapped L a).
Proof. exact find_None_iff. Qed.

(* ... together with the right offset (to_region_addr never panics) *)
Theorem C02_to_region_addr : forall (find : layout -> N -> option nat) (inv : layout -> Prop),
  (forall L, inv L -> wf_layout_gen L) ->
  (forall L a, inv L -> a < W64 -> find_ok L a (find L a)) ->
  forall L a, inv L -> a < W64 ->
  gm_to_region_addr find L a =
  Val (match find L a with Some i => Some (i, a - fst (nth i L dreg)) | None => None end).
Proof. exact to_region_addr_lemma. Qed.

(* ... and host pointer: region i's host base + (a - start i); InvalidGuestAddress in a hole *)
Theorem C02_host_address : forall (find : layout -> N -> option nat) (inv : layout -> Prop),
  (forall L, inv L -> wf_layout_gen L) ->
  (forall L a, inv L -> a < W64 -> find_ok L a (find L a)) ->
  forall L a, inv L -> a < W64 ->
  gm_get_host_address find L a =
  Val (match find L a with Some i => inl (i, a - fst (nth i L dreg)) | None => inr EInvalidGuestAddress end).
Proof. exact host_address_lemma. Qed.

Theorem C02_address_in_range_iff : forall (find : layout -> N -> option nat) (inv : layout -> Prop),
  (forall L, inv L -> wf_layout_gen L) ->
  (forall L a, inv L -> a < W64 -> find_ok L a (find L a)) ->
  forall L a, inv L -> a < W64 -> (gm_address_in_range find L a = true <-> Mapped L a).
Proof. exact address_in_range_lemma. Qed.

Theorem C02_check_address_iff : forall (find : layout -> N -> option nat) (inv : layout -> Prop),
  (forall L, inv L -> wf_layout_gen L) ->
  (forall L a, inv L -> a < W64 -> find_ok L a (find L a)) ->
  forall L a, inv L -> a < W64 ->
  forall c, gm_check_address find L a = Some c <-> c = a /\ Mapped L a.
Proof. exact check_address_lemma. Qed.

(* checked_offset: Some (base+offset) exactly when the sum fits in 64 bits and is mapped *)
Theorem C02_checked_offset_iff : forall (find : layout -> N -> option nat) (inv : layout -> Prop),
  (forall L, inv L -> wf_layout_gen L) ->
  (forall L a, inv L -> a < W64 -> find_ok L a (find L a)) ->
  forall L b o, inv L -> b < W64 -> o < W64 ->
  forall c, gm_checked_offset find L b o = Some c <-> c = b + o /\ b + o < W64 /\ Mapped L (b + o).
Proof. exact checked_offset_lemma. Qed.

(* a range of n >= 1 bytes is reported valid exactly when every one of its bytes is an address and
   is mapped; never panics, never runs out of fuel, in both build profiles - also for layouts
   with a region ending at 2^64 and another at 0 (the wrap-around of finding F5) *)
Theorem C02_check_range_iff : forall (find : layout -> N -> option nat) (inv : layout -> Prop),
  (forall L, inv L -> wf_layout_gen L) ->
  (forall L a, inv L -> a < W64 -> find_ok L a (find L a)) ->
  forall m L base n, inv L -> base < W64 -> n < W64 -> 0 < n ->
  exists b, gm_check_range find m L base n = Val b /\
    (b = true <-> forall i, i < n -> base + i < W64 /\ Mapped L (base + i)).
Proof. exact check_range_lemma. Qed.

(* the empty range (DESIGN section 8: characterised, not judged): valid iff the base is mapped *)
Theorem C02_check_range_zero : forall (find : layout -> N -> option nat) (inv : layout -> Prop),
  (forall L, inv L -> wf_layout_gen L) ->
  (forall L a, inv L -> a < W64 -> find_ok L a (find L a)) ->
  forall m L base, inv L -> base < W64 ->
  gm_check_range find m L base 0 = Val (gm_address_in_range find L base).
Proof. exact check_range_zero_lemma. Qed.

(* the last address is the greatest mapped address (non-empty collection), in both build profiles *)
Theorem C02_last_addr_max : forall m L, wf_layout_gen L -> L <> [] ->
  exists v, gm_last_addr m L = Val v /\ Mapped L v /\ forall a, Mapped L a -> a <= v.
Proof. exact last_addr_lemma. Qed.

(* a single contiguous slice of c >= 1 bytes is granted exactly for the ranges contained in one
   region, and then it is (that region, offset a - start, length c) *)
Theorem C02_get_slice_iff : forall (find : layout -> N -> option nat) (inv : layout -> Prop),
  (forall L, inv L -> wf_layout_gen L) ->
  (forall L a, inv L -> a < W64 -> find_ok L a (find L a)) ->
  forall L a c, inv L -> a < W64 -> 0 < c ->
  exists r, gm_get_slice find L a c = Val r /\
    ((exists x, r = inl x) <-> exists p, In p L /\ fst p <= a /\ a + c <= fst p + snd p) /\
    (forall i off n, r = inl (i, off, n) -> find L a = Some i /\ off = a - fst (nth i L dreg) /\ n = c).
Proof. exact get_slice_lemma. Qed.

(* num_regions / iter expose the collection in order *)
Theorem C02_iter_order : forall L, gm_iter L = L /\ gm_num_regions L = N.of_nat (length L).
Proof. exact iter_lemma. Qed.

(* GuestMemoryRegion provided methods *)
Theorem C02_region_defaults : forall m st ln, 0 < ln -> ln < W64 -> st + ln <= W64 ->
  r_last_addr m st ln = Val (st + ln - 1) /\
  (forall x, r_address_in_range ln x = true <-> x < ln) /\
  (forall x c, r_check_address ln x = Some c <-> c = x /\ x < ln) /\
  (forall b o c, b < W64 -> o < W64 -> (r_checked_offset ln b o = Some c <-> c = b + o /\ b + o < ln)) /\
  (forall a o, r_to_region_addr st ln a = Some o <-> st <= a < st + ln /\ o = a - st).
Proof. exact region_defaults_lemma. Qed.

(* the checker's decision procedure for "every byte of the range is mapped" IS the pointwise statement *)
Theorem C02_checker_all_mapped : forall L a n, wf_layout_gen L -> a < W64 -> 0 < n ->
  (all_mapped L a n = true <-> forall i, i < n -> a + i < W64 /\ Mapped L (a + i)).
Proof. exact all_mapped_iff. Qed.

(* ---- implementors that RELY ON THE PROVIDED capability methods (flavours): a region type either
   writes get_host_address / get_slice itself (own = true, the code of GuestRegionMmap) or inherits the
   trait's provided body (own = false) ---- *)

(* region-level host pointer: granted only inside the region, and then it is host base + x; a type
   that provides it grants it exactly for x < len; the provided body refuses everywhere *)
Theorem C02_region_host_address : forall own ln x,
  (forall p, fl_get_host_address own ln x = inl p -> x < ln /\ p = x) /\
  (own = true -> x < ln -> fl_get_host_address own ln x = inl x) /\
  (own = true -> ln <= x -> fl_get_host_address own ln x = inr EInvalidBackendAddress) /\
  (own = false -> fl_get_host_address own ln x = inr EHostAddressNotAvailable).
Proof. exact region_host_address_lemma. Qed.

(* region-level slice [x, x+n): granted only if x + n <= len (exact sum, so a count that would wrap is
   refused), and then it is (offset x, n bytes); a provider grants exactly those; the provided body refuses *)
Theorem C02_region_get_slice : forall own ln x n,
  (forall off c, fl_get_slice own ln x n = inl (off, c) -> x + n <= ln /\ off = x /\ c = n) /\
  (own = true -> ln < W64 -> x + n <= ln -> fl_get_slice own ln x n = inl (x, n)) /\
  (own = true -> ln < x + n -> fl_get_slice own ln x n = inr EInvalidBackendAddress) /\
  (own = false -> fl_get_slice own ln x n = inr EHostAddressNotAvailable).
Proof. exact region_get_slice_lemma. Qed.

(* the region-wide slice is [0, len) for a provider and refused by the provided get_slice *)
Theorem C02_region_as_volatile_slice : forall own ln, ln < W64 ->
  fl_as_volatile_slice own ln = if own then inl (0, ln) else inr EHostAddressNotAvailable.
Proof. exact region_as_volatile_slice_lemma. Qed.

(* GuestMemory::get_host_address over any flavour, for every find_region meeting its contract *)
Theorem C02_flavour_host_address : forall (find : layout -> N -> option nat) (inv : layout -> Prop),
  (forall L, inv L -> wf_layout_gen L) ->
  (forall L a, inv L -> a < W64 -> find_ok L a (find L a)) ->
  forall own L a, inv L -> a < W64 ->
  gm_get_host_address_fl find own L a =
  Val (match find L a with
       | Some i => if own then inl (i, a - fst (nth i L dreg)) else inr EHostAddressNotAvailable
       | None => inr EInvalidGuestAddress end).
Proof. exact host_address_fl_lemma. Qed.

(* GuestMemory::get_slice over any flavour *)
Theorem C02_flavour_get_slice : forall (find : layout -> N -> option nat) (inv : layout -> Prop),
  (forall L, inv L -> wf_layout_gen L) ->
  (forall L a, inv L -> a < W64 -> find_ok L a (find L a)) ->
  forall own L a c, inv L -> a < W64 ->
  gm_get_slice_fl find own L a c =
  Val (match find L a with
       | None => inr EInvalidGuestAddress
       | Some i => let p := nth i L dreg in
                   if own then (if a + c <=? fst p + snd p then inl (i, a - fst p, c) else inr EInvalidBackendAddress)
                   else inr EHostAddressNotAvailable
       end).
Proof. exact get_slice_fl_lemma. Qed.

(* whatever the flavour: what IS granted lies inside one region and is the right slice / pointer *)
Theorem C02_flavour_grants_only_inside : forall (find : layout -> N -> option nat) (inv : layout -> Prop),
  (forall L, inv L -> wf_layout_gen L) ->
  (forall L a, inv L -> a < W64 -> find_ok L a (find L a)) ->
  forall own L a c, inv L -> a < W64 ->
  (forall i off n, gm_get_slice_fl find own L a c = Val (inl (i, off, n)) ->
     find L a = Some i /\ a + c <= fst (nth i L dreg) + snd (nth i L dreg) /\ off = a - fst (nth i L dreg) /\ n = c) /\
  (forall i off, gm_get_host_address_fl find own L a = Val (inl (i, off)) ->
     find L a = Some i /\ off = a - fst (nth i L dreg)).
Proof. exact flavour_grants_only_inside. Qed.

(* the flavour that writes both methods IS the model the theorems above (C02_host_address,
   C02_get_slice_iff, the mmap instances) speak about *)
Theorem C02_flavour_own_is_base : forall (find : layout -> N -> option nat) L a c,
  gm_get_host_address_fl find true L a = gm_get_host_address find L a /\
  gm_get_slice_fl find true L a c = gm_get_slice find L a c.
Proof. exact flavour_own_is_base_lemma. Qed.

(* non-vacuity: a collection that is not in address order, with a region at 0, touching regions
   and a region ending exactly at 2^64 satisfies the hypotheses; the range that would wrap is refused *)
Example C02_nonvacuous :
  let L := [(W64 - 8, 8); (0, 16); (16, 4)] in
  wf_layout_gen L /\ find_lin L (W64 - 1) = Some 0%nat /\
  gm_check_range find_lin Debug L (W64 - 8) 8 = Val true /\
  gm_check_range find_lin Debug L (W64 - 8) 9 = Val false /\
  gm_check_range find_lin Debug L 8 12 = Val true /\
  gm_last_addr Debug L = Val (W64 - 1).
Proof. exact nonvacuous_lemma. Qed.

Print Assumptions C02_model_ok.
Print Assumptions C02_region_host_address.
Print Assumptions C02_region_get_slice.
Print Assumptions C02_region_as_volatile_slice.
Print Assumptions C02_flavour_host_address.
Print Assumptions C02_flavour_get_slice.
Print Assumptions C02_flavour_grants_only_inside.
Print Assumptions C02_flavour_own_is_base.
Print Assumptions C02_linear_find_contract.
Print Assumptions C02_find_iff.
Print Assumptions C02_find_none_iff.
Print Assumptions C02_to_region_addr.
Print Assumptions C02_host_address.
Print Assumptions C02_address_in_range_iff.
Print Assumptions C02_check_address_iff.
Print Assumptions C02_checked_offset_iff.
Print Assumptions C02_check_range_iff.
Print Assumptions C02_check_range_zero.
Print Assumptions C02_last_addr_max.
Print Assumptions C02_get_slice_iff.
Print Assumptions C02_iter_order.
Print Assumptions C02_region_defaults.
Print Assumptions C02_checker_all_mapped.

(* ---------------------------------------------------------------------------------------------
   LINK to C10 (Proofs/LinkGuestMmap.v): the theorems above hold for an abstract find_region
   meeting find_ok and were instantiated for a linear search only.  Here they are instantiated for
   the REAL lookup of GuestMemoryMmap: [mmap_find_index] is the index computed by the binary
   search of src/mmap/mod.rs:499-507 (Impl/Mmap.v), [mmap_inv L] = Mmap.wf_layout fst snd L is the
   invariant C10 proves of every collection built by new / from_regions / from_arc_regions /
   insert_region / remove_region ([reachable]). *)

(* the binary search meets the find_region contract on every layout satisfying the invariant ... *)
Theorem C02_mmap_find_contract : forall L a, mmap_inv L -> find_ok L a (mmap_find_index L a).
Proof. exact mmap_find_index_ok. Qed.

(* ... it is what the transcribed code (bisection loop with fuel, indexing panics, last_addr
   arithmetic, either build profile) computes: never a panic, never out of fuel ... *)
Theorem C02_mmap_find_is_the_code : forall m L a, mmap_inv L ->
  Mmap.find_region fst snd m L a = Val (option_map (fun i => nth i L dreg) (mmap_find_index L a)).
Proof. exact mmap_find_region_code. Qed.

(* ... the invariant implies the hypothesis of the generic theorems, and on such layouts the
   binary search and the linear search of the C02 / C03 suites return the same index *)
Theorem C02_mmap_inv_wf : forall L, mmap_inv L -> wf_layout_gen L.
Proof. exact mmap_wf_gen. Qed.

Theorem C02_mmap_find_is_linear : forall L a, mmap_inv L -> a < W64 -> mmap_find_index L a = find_lin L a.
Proof. exact mmap_find_is_linear. Qed.

(* every GuestMemoryMmap reached by ANY construction history from valid regions (the regions
   carrying their bytes: Guest.mem) satisfies the invariant, hence the contract *)
Theorem C02_mmap_reachable : forall md (M : mem), reachable rstart rlen md M ->
  mmap_inv (shape M) /\ wf_layout_gen (shape M) /\
  (forall a, find_ok (shape M) a (mmap_find_index (shape M) a)) /\
  (forall m a, Mmap.find_region fst snd m (shape M) a =
               Val (option_map (fun i => nth i (shape M) dreg) (mmap_find_index (shape M) a))).
Proof. exact mmap_reachable_lemma. Qed.

Theorem C02_mmap_reachable_check_range : forall md m (M : mem) base n, reachable rstart rlen md M ->
  base < W64 -> n < W64 -> 0 < n ->
  exists b, gm_check_range mmap_find_index m (shape M) base n = Val b /\
    (b = true <-> forall i, i < n -> base + i < W64 /\ Mapped (shape M) (base + i)).
Proof. exact mmap_reachable_check_range_lemma. Qed.

(* the instances of the generic theorems, one by one (same statements, find := mmap_find_index,
   inv := mmap_inv, both hypotheses discharged) *)
Theorem C02_mmap_find_iff :
  forall L a i, mmap_inv L -> a < W64 ->
  (mmap_find_index L a = Some i <-> (i < length L)%nat /\ In_reg (nth i L dreg) a).
Proof. exact find_Some_iff_mmap. Qed.

Theorem C02_mmap_find_none_iff :
  forall L a, mmap_inv L -> a < W64 -> (mmap_find_index L a = None <-> ~ Mapped L a).
Proof. exact find_None_iff_mmap. Qed.

Theorem C02_mmap_to_region_addr :
  forall L a, mmap_inv L -> a < W64 ->
  gm_to_region_addr mmap_find_index L a =
  Val (match mmap_find_index L a with Some i => Some (i, a - fst (nth i L dreg)) | None => None end).
Proof. exact to_region_addr_lemma_mmap. Qed.

Theorem C02_mmap_host_address :
  forall L a, mmap_inv L -> a < W64 ->
  gm_get_host_address mmap_find_index L a =
  Val (match mmap_find_index L a with Some i => inl (i, a - fst (nth i L dreg)) | None => inr EInvalidGuestAddress end).
Proof. exact host_address_lemma_mmap. Qed.

Theorem C02_mmap_address_in_range_iff :
  forall L a, mmap_inv L -> a < W64 -> (gm_address_in_range mmap_find_index L a = true <-> Mapped L a).
Proof. exact address_in_range_lemma_mmap. Qed.

Theorem C02_mmap_check_address_iff :
  forall L a, mmap_inv L -> a < W64 ->
  forall c, gm_check_address mmap_find_index L a = Some c <-> c = a /\ Mapped L a.
Proof. exact check_address_lemma_mmap. Qed.

Theorem C02_mmap_checked_offset_iff :
  forall L b o, mmap_inv L -> b < W64 -> o < W64 ->
  forall c, gm_checked_offset mmap_find_index L b o = Some c <-> c = b + o /\ b + o < W64 /\ Mapped L (b + o).
Proof. exact checked_offset_lemma_mmap. Qed.

Theorem C02_mmap_check_range_iff :
  forall m L base n, mmap_inv L -> base < W64 -> n < W64 -> 0 < n ->
  exists b, gm_check_range mmap_find_index m L base n = Val b /\
    (b = true <-> forall i, i < n -> base + i < W64 /\ Mapped L (base + i)).
Proof. exact check_range_lemma_mmap. Qed.

Theorem C02_mmap_check_range_zero :
  forall m L base, mmap_inv L -> base < W64 ->
  gm_check_range mmap_find_index m L base 0 = Val (gm_address_in_range mmap_find_index L base).
Proof. exact check_range_zero_lemma_mmap. Qed.

Theorem C02_mmap_get_slice_iff :
  forall L a c, mmap_inv L -> a < W64 -> 0 < c ->
  exists r, gm_get_slice mmap_find_index L a c = Val r /\
    ((exists x, r = inl x) <-> exists p, In p L /\ fst p <= a /\ a + c <= fst p + snd p) /\
    (forall i off n, r = inl (i, off, n) -> mmap_find_index L a = Some i /\ off = a - fst (nth i L dreg) /\ n = c).
Proof. exact get_slice_lemma_mmap. Qed.

Print Assumptions C02_mmap_find_contract.
Print Assumptions C02_mmap_find_is_the_code.
Print Assumptions C02_mmap_inv_wf.
Print Assumptions C02_mmap_find_is_linear.
Print Assumptions C02_mmap_reachable.
Print Assumptions C02_mmap_reachable_check_range.
Print Assumptions C02_mmap_find_iff.
Print Assumptions C02_mmap_find_none_iff.
Print Assumptions C02_mmap_to_region_addr.
Print Assumptions C02_mmap_host_address.
Print Assumptions C02_mmap_address_in_range_iff.
Print Assumptions C02_mmap_check_address_iff.
Print Assumptions C02_mmap_checked_offset_iff.
Print Assumptions C02_mmap_check_range_iff.
Print Assumptions C02_mmap_check_range_zero.
Print Assumptions C02_mmap_get_slice_iff.

(* non-vacuity of the link: a collection built by from_regions then insert_region (out of order:
   the inserted region sorts first) is reachable; the binary search finds the owning region *)
Example C02_mmap_nonvacuous :
  let r0 := {| rstart := 16; rbytes := [1;2;3;4] |} in
  let r1 := {| rstart := 0; rbytes := [9;9] |} in
  insert_region rstart rlen Debug [r0] r1 = Val (Ok [r1; r0]) /\
  reachable rstart rlen Debug [r1; r0] /\ shape [r1; r0] = [(0, 2); (16, 4)] /\
  mmap_find_index (shape [r1; r0]) 17 = Some 1%nat /\ mmap_find_index (shape [r1; r0]) 2 = None /\
  Mmap.find_region fst snd Debug (shape [r1; r0]) 19 = Val (Some (16, 4)).
Proof.
  cbv zeta.
  assert (K0 : Mmap.region_ok rstart rlen {| rstart := 16; rbytes := [1;2;3;4] |}).
  { unfold Mmap.region_ok, rlen, lenN; cbn [rstart rbytes length]. rewrite W64_val. lia. }
  assert (K1 : Mmap.region_ok rstart rlen {| rstart := 0; rbytes := [9;9] |}).
  { unfold Mmap.region_ok, rlen, lenN; cbn [rstart rbytes length]. rewrite W64_val. lia. }
  assert (E : insert_region rstart rlen Debug [{| rstart := 16; rbytes := [1;2;3;4] |}] {| rstart := 0; rbytes := [9;9] |}
              = Val (Ok [{| rstart := 0; rbytes := [9;9] |}; {| rstart := 16; rbytes := [1;2;3;4] |}])) by (vm_compute; reflexivity).
  split; [exact E|]. split.
  - eapply R_insert; [|exact K1|exact E].
    eapply (R_from rstart rlen Debug [{| rstart := 16; rbytes := [1;2;3;4] |}]); [constructor; [exact K0|constructor]|].
    vm_compute. reflexivity.
  - vm_compute. repeat split.
Qed.
