(* C06 - property theorems.  Statements only: each is closed by [exact] of a lemma from
   Proofs/C06.v and followed by Print Assumptions. *)
From VM Require Import Prelude.MachInt Prelude.Outcome Impl.CopyPlan Spec.C06 Suite.C06 Proofs.C06.

(* alignment(): for every non-null 64-bit address the code's `addr & (!addr + 1)` does not
   overflow and is the largest power of two dividing the address *)
Theorem C06_alignment_pow2 : forall m a, 0 < a < W64 ->
  exists k, alignment m a = Val (2 ^ k) /\ a mod 2 ^ k = 0 /\ (a / 2 ^ k) mod 2 = 1.
Proof. exact alignment_pow2_lemma. Qed.

(* ... hence `align >= 2^k` (what the descending-width loop tests) is a divisibility test *)
Theorem C06_alignment_dvd : forall m a k, 0 < a < W64 ->
  exists v, alignment m a = Val v /\ (2 ^ k <= v <-> a mod 2 ^ k = 0).
Proof. exact alignment_dvd_lemma. Qed.

Print Assumptions C06_alignment_pow2.
Print Assumptions C06_alignment_dvd.
