(* C06 - property theorems.  Statements only: each is closed by [exact] of a lemma from
   Proofs/C06.v and followed by Print Assumptions.
   Vocabulary (Spec/C06.v): valid_ptr a n = non-null pointer to n bytes inside the address space;
   acc_tiles / acc_sum / acc_ok = the plan is contiguous / covers n bytes / every element is an
   aligned 1,2,4,8-byte copy_single; mev, exec, rd, interleave = byte memory on which every
   primitive access is one atomic event, schedules = interleavings.
   TRUSTED (not proved here): that one read_volatile::<uN> / write_volatile::<uN> of an N-aligned
   location is one single-copy-atomic CPU access (rustc + hardware). *)
From VM Require Import Prelude.MachInt Prelude.Outcome Impl.CopyPlan Spec.C06 Suite.C06 Proofs.C06.

(* the implementation model satisfies the executable spec checker on every case of the suite:
   all entry points / directions, every guest offset, every local address, every total *)
Theorem C06_model_ok : forall c lres, c_goff c < 65536 -> c_loff c < 4096 ->
  ok_C06 c (run_C06 c lres) = true.
Proof. exact C06_model_ok_lemma. Qed.

Theorem C06atomic_model_ok : forall c, a_len c < 1048576 -> a_skew c < 8 -> ok_C06atomic c (run_C06atomic c) = true.
Proof. exact C06atomic_model_ok_lemma. Qed.

(* alignment(): for every non-null 64-bit address the code's `addr & (!addr + 1)` does not
   overflow and is the largest power of two dividing the address *)
Theorem C06_alignment_pow2 : forall m a, 0 < a < W64 ->
  exists k, alignment m a = Val (2 ^ k) /\ a mod 2 ^ k = 0 /\ (a / 2 ^ k) mod 2 = 1.
Proof. exact alignment_pow2_lemma. Qed.

(* ... hence `align >= 2^k` (what the descending-width loop tests) is a divisibility test *)
Theorem C06_alignment_dvd : forall m a k, 0 < a < W64 ->
  exists v, alignment m a = Val v /\ (2 ^ k <= v <-> a mod 2 ^ k = 0).
Proof. exact alignment_dvd_lemma. Qed.

(* copy_slice on valid pointers: no overflow panic, no unreachable!(), the 10 units of loop fuel
   of the model are never exhausted - in both build profiles, for every total *)
Theorem C06_no_panic : forall m dst src total, valid_ptr src total -> valid_ptr dst total ->
  exists p, copy_slice m dst src total = Val p.
Proof. exact no_panic_lemma. Qed.

(* THE property, access-sequence half: an n-byte transfer (n = 1,2,4,8) between n-aligned
   addresses is exactly ONE primitive access of width n, at the two addresses given *)
Theorem C06_single_access : forall m n dst src, is_wordP n ->
  valid_ptr src n -> valid_ptr dst n -> src mod n = 0 -> dst mod n = 0 ->
  copy_slice m dst src n = Val [Acc n src dst].
Proof. exact single_access_lemma. Qed.

(* every small transfer is tiled by its accesses: ascending, contiguous, no overlap, no gap,
   widths summing to total *)
Theorem C06_plan_tiles : forall m dst src total p,
  valid_ptr src total -> valid_ptr dst total -> total <= 8 -> copy_slice m dst src total = Val p ->
  acc_tiles src dst p /\ acc_sum p = total.
Proof. exact plan_tiles_lemma. Qed.

(* every access the volatile path issues has width 1,2,4,8 and both its pointers aligned to that
   width: copy_single's safety contract always holds *)
Theorem C06_plan_aligned : forall m dst src total p,
  valid_ptr src total -> valid_ptr dst total -> total <= 8 -> copy_slice m dst src total = Val p ->
  Forall acc_ok p.
Proof. exact plan_aligned_lemma. Qed.

(* the plan, relative to the pointers, depends on them only through their residues mod 8: the
   harness's exhaustive (total, src mod 8, dst mod 8) sweep covers the whole function *)
Theorem C06_plan_mod8 : forall m dst src dst' src' total,
  valid_ptr src total -> valid_ptr dst total -> valid_ptr src' total -> valid_ptr dst' total ->
  src mod 8 = src' mod 8 -> dst mod 8 = dst' mod 8 ->
  exists p p', copy_slice m dst src total = Val p /\ copy_slice m dst' src' total = Val p' /\
    map (rel_ev false dst src) p = map (rel_ev false dst' src') p' /\
    map (rel_ev true src dst) p = map (rel_ev true src' dst') p'.
Proof. exact plan_mod8_lemma. Qed.

(* executing the plan on a byte memory is memcpy(dst, src, total) for non-overlapping buffers:
   exactly the bytes dst..dst+total change, to the bytes src..src+total *)
Theorem C06_exec_plan_is_memcpy : forall m dst src total p,
  valid_ptr src total -> valid_ptr dst total -> disjoint src dst total ->
  copy_slice m dst src total = Val p ->
  forall mm a, exec (map mev_of p) mm a =
    if (dst <=? a) && (a <? dst + total) then mm (src + (a - dst)) else mm a.
Proof. exact exec_plan_is_memcpy_lemma. Qed.

(* get_atomic_ref (hence Bytes::store / Bytes::load) on a non-null slice: never panics, a granted
   reference is in bounds and aligned to the integer's size, a misaligned address is refused,
   an aligned in-bounds one is granted *)
Theorem C06_atomic_ref_aligned : forall m s off size,
  is_wordP size -> 0 < vs_addr s -> vs_addr s + vs_size s <= W64 ->
  (forall a, get_atomic_ref m s off size = Val (Ok a) ->
             a = vs_addr s + off /\ a mod size = 0 /\ off + size <= vs_size s) /\
  ((vs_addr s + off) mod size <> 0 -> exists e, get_atomic_ref m s off size = Val (Err e)) /\
  (off + size <= vs_size s -> (vs_addr s + off) mod size = 0 ->
             get_atomic_ref m s off size = Val (Ok (vs_addr s + off))).
Proof. exact atomic_ref_aligned_lemma. Qed.

(* THE property, schedule half.  A writer performs any number of whole-object writes of n-byte
   values (held at the aligned local addresses ws) to the aligned guest location g; a reader
   performs one whole-object read of g into lr.  Whatever the interleaving l of the primitive
   accesses the model issues for the two threads, the reader ends up with the old value of g or
   with one of the written values - never a mixture. *)
Theorem C06_no_mixture : forall m n g lr ws wplans rplan l mm0,
  is_wordP n -> valid_ptr g n -> valid_ptr lr n -> g mod n = 0 -> lr mod n = 0 ->
  disjoint g lr n ->
  (forall s, In s ws -> valid_ptr s n /\ s mod n = 0 /\ disjoint s g n /\ disjoint s lr n) ->
  Forall2 (fun s p => copy_slice m g s n = Val p) ws wplans ->
  copy_slice m lr g n = Val rplan ->
  interleave (map mev_of (concat wplans)) (map mev_of rplan) l ->
  rd (exec l mm0) lr (N.to_nat n) = rd mm0 g (N.to_nat n) \/
  exists s, In s ws /\ rd (exec l mm0) lr (N.to_nat n) = rd mm0 s (N.to_nat n).
Proof. exact no_mixture_lemma. Qed.

(* non-vacuity: an aligned 8-byte transfer is one access; a 7-byte transfer between 2-aligned
   pointers is 2+2+2+1; a misaligned atomic reference is refused; and the memory semantics CAN
   see tearing: if an 8-byte value were moved by two 4-byte accesses, a reader scheduled between
   them obtains a value that is neither the old (all 0) nor the new (all 1) one *)
Example C06_nonvacuous :
  copy_slice Debug 4096 8192 8 = Val [Acc 8 8192 4096] /\
  copy_slice Release 4098 8194 7 = Val [Acc 2 8194 4098; Acc 2 8196 4100; Acc 2 8198 4102; Acc 1 8200 4104] /\
  copy_slice Debug 4096 8192 9 = Val [Bulk 8192 4096 9] /\
  get_atomic_ref Debug {| vs_addr := 4096; vs_size := 64 |} 6 4 = Val (Err EMisaligned) /\
  get_atomic_ref Debug {| vs_addr := 4096; vs_size := 64 |} 8 4 = Val (Ok 4104) /\
  (let mm0 : mem := fun a => if a <? 200 then 1 else 0 in
   let l := [MCopy 4 100 200; MCopy 8 200 300; MCopy 4 104 204] in
   interleave [MCopy 4 100 200; MCopy 4 104 204] [MCopy 8 200 300] l /\
   rd (exec l mm0) 300 8 = [1; 1; 1; 1; 0; 0; 0; 0]).
Proof.
  repeat split; try (vm_compute; reflexivity).
  apply il_l. apply il_r. apply il_l. apply il_nil.
Qed.

Print Assumptions C06_model_ok.
Print Assumptions C06atomic_model_ok.
Print Assumptions C06_alignment_pow2.
Print Assumptions C06_alignment_dvd.
Print Assumptions C06_no_panic.
Print Assumptions C06_single_access.
Print Assumptions C06_plan_tiles.
Print Assumptions C06_plan_aligned.
Print Assumptions C06_plan_mod8.
Print Assumptions C06_exec_plan_is_memcpy.
Print Assumptions C06_atomic_ref_aligned.
Print Assumptions C06_no_mixture.

(* the requested memory ordering (suite C06order): the model of Bytes::store / Bytes::load hands the
   caller's ordering unchanged to exactly one atomic access; the checker demands exactly that of the
   real library, which is observed through third-party AtomicInteger implementations *)
Theorem C06order_model_ok : forall os ol, ok_C06order os ol (run_C06order os ol) = true.
Proof. exact C06order_model_ok_lemma. Qed.
Print Assumptions C06order_model_ok.

(* the requested memory ordering through the crate's OWN AtomicInteger impls for the std atomics (suite C06ordstd): the
   model of atomic_integer.rs hands the caller's ordering to the std method, std refuses an Acquire/AcqRel store and a
   Release/AcqRel load; the checker demands of the real library that exactly those requests end in std's panic *)
Theorem C06ordstd_model_ok : forall kind order, ok_C06ordstd kind order (run_C06ordstd kind order) = true.
Proof. exact C06ordstd_model_ok_lemma. Qed.

(* what the checker accepts: the operation panicked iff std refuses the REQUESTED ordering, and otherwise completed with the
   right value - an implementation that turns a refused ordering into an accepted one, or the reverse, is rejected *)
Theorem C06ordstd_checker_sharp : forall kind order st, kind <= 1 -> order <= 4 ->
  ok_C06ordstd kind order st = true ->
  (st = 2 <-> (kind = 0 /\ (order = 2 \/ order = 3)) \/ (kind = 1 /\ (order = 1 \/ order = 3))) /\ (st = 2 \/ st = 0).
Proof. exact C06ordstd_checker_sharp_lemma. Qed.

(* store buffering (suite C06sb): in every sequentially consistent schedule of  x := 1; r0 := y  ||  y := 1; r1 := x
   (all 6 interleavings that keep each thread's program order) the outcome r0 = r1 = 0 does not occur; the suite fails
   only when the real library, asked for SeqCst stores and loads, shows it *)
Theorem C06_sb_forbidden_under_sc : forall l, In l sb_schedules -> sb_result l <> (0, 0).
Proof. exact sb_forbidden_under_sc_lemma. Qed.

Theorem C06_sb_schedules_complete : length sb_schedules = 6%nat /\
  forall l, In l sb_schedules -> filter (fun e => match e with SbW0 | SbR0 => true | _ => false end) l = [SbW0; SbR0] /\
                                 filter (fun e => match e with SbW1 | SbR1 => true | _ => false end) l = [SbW1; SbR1].
Proof. exact sb_schedules_complete_lemma. Qed.
Print Assumptions C06ordstd_model_ok.
Print Assumptions C06ordstd_checker_sharp.
Print Assumptions C06_sb_forbidden_under_sc.
Print Assumptions C06_sb_schedules_complete.
