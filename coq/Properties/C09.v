(* C09 - property theorems (statements only). *)
From VM Require Import Prelude.MachInt Prelude.Outcome Impl.Bitmap Spec.C09 Suite.C09 Proofs.C09.

Theorem C09_slice_compose : forall base o1 o2, base < W64 ->
  bs_slice_at (bs_slice_at base o1) o2 = (base + o1 + o2) mod W64.
Proof. exact slice_compose_lemma. Qed.

Print Assumptions C09_slice_compose.
