(* C09 - the page bitmap behaves as a set of page numbers under every operation sequence.
   Statements only; proofs are in Proofs/C09.v.  [abs_pages b : N -> bool] is the set a bitmap
   denotes, [bm_inv] the representation invariant, [touches page a l p] says that page p contains
   a byte of the range [a, a+l) that is a usize value.  Every `= Val ..` also says: the code
   neither panics nor loops (the loop fuel S (S size) is never exhausted). *)
From VM Require Import Prelude.MachInt Prelude.Outcome Impl.Bitmap Spec.C09 Suite.C09 Proofs.C09.

(* the model satisfies the executable checker on every well-formed history: any byte size,
   any non-zero page size, any number of operations, clones, enlarges and nested slices *)
Theorem C09_model_ok : forall c, wf_case c = true -> ok_C09 c (run_C09 c) = true.
Proof. exact C09_model_ok_lemma. Qed.

(* new: invariant, the page count is the least k with k * page >= bytes, empty set *)
Theorem C09_new : forall bytes ps, 0 < ps -> bytes < W64 ->
  bm_inv (bm_new bytes ps) /\ bm_len (bm_new bytes ps) = div_ceil bytes ps /\
  bm_get_byte_size (bm_new bytes ps) = bytes /\
  (forall k, k * ps >= bytes <-> bm_len (bm_new bytes ps) <= k) /\
  forall p, abs_pages (bm_new bytes ps) p = false.
Proof. exact new_lemma. Qed.

(* the constructors with the implicit (host) page size - NewBitmap::with_len, what MmapRegion::new / from_file /
   GuestMemoryMmap::from_ranges use - and Default: with_len(len) is AtomicBitmap::new(len, 4096): the invariant
   holds, it is the empty set over ceil(len / 4096) pages (a trailing partial page included: every byte i < len
   has its page), byte_size = len *)
Theorem C09_with_len : forall len, len < W64 ->
  bm_with_len len = bm_new len 4096 /\
  bm_inv (bm_with_len len) /\ bm_len (bm_with_len len) = div_ceil len 4096 /\
  bm_get_byte_size (bm_with_len len) = len /\
  (forall k, k * 4096 >= len <-> bm_len (bm_with_len len) <= k) /\
  (forall p, abs_pages (bm_with_len len) p = false) /\
  (forall i, i < len -> i / 4096 < bm_len (bm_with_len len)).
Proof. exact with_len_lemma. Qed.

Theorem C09_default :
  bm_default = bm_new 0 4096 /\ bm_inv bm_default /\ bm_len bm_default = 0 /\ bm_get_byte_size bm_default = 0 /\
  forall p, abs_pages bm_default p = false.
Proof. exact default_lemma. Qed.

Example C09_with_len_nonvacuous :
  bm_len (bm_with_len 6144) = 2 /\ bm_get_byte_size (bm_with_len 6144) = 6144 /\
  map (abs_pages (bm_mark_dirty (bm_with_len 6144) 4104 1)) [0; 1; 2] = [false; true; false].
Proof. vm_compute. repeat split. Qed.

(* marking a byte range adds precisely the existing pages the range touches (all ranges: empty,
   past the end, saturating near usize::MAX) *)
Theorem C09_set_range : forall b a l, bm_inv b -> a < W64 ->
  exists b', bm_set_addr_range_o b a l = Val b' /\ bm_inv b' /\
    bm_len b' = bm_len b /\ bm_get_byte_size b' = bm_get_byte_size b /\ bm_ps b' = bm_ps b /\
    forall p, abs_pages b' p = true <-> abs_pages b p = true \/ (p < bm_len b /\ touches (bm_ps b) a l p).
Proof. exact set_range_lemma. Qed.

(* clearing a byte range removes precisely the pages the range touches *)
Theorem C09_reset_range : forall b a l, bm_inv b -> a < W64 ->
  exists b', bm_reset_addr_range_o b a l = Val b' /\ bm_inv b' /\
    bm_len b' = bm_len b /\ bm_get_byte_size b' = bm_get_byte_size b /\ bm_ps b' = bm_ps b /\
    forall p, abs_pages b' p = true <-> abs_pages b p = true /\ ~ touches (bm_ps b) a l p.
Proof. exact reset_range_lemma. Qed.

(* single-bit operations affect one page; an index at or beyond the page count is ignored *)
Theorem C09_single_bit : forall b i, bm_inv b ->
  (exists b', bm_set_bit_o b i = Val b' /\ bm_inv b' /\ bm_len b' = bm_len b /\
     bm_get_byte_size b' = bm_get_byte_size b /\ bm_ps b' = bm_ps b /\
     forall p, abs_pages b' p = true <-> abs_pages b p = true \/ (p = i /\ i < bm_len b)) /\
  (exists b', bm_reset_bit_o b i = Val b' /\ bm_inv b' /\ bm_len b' = bm_len b /\
     bm_get_byte_size b' = bm_get_byte_size b /\ bm_ps b' = bm_ps b /\
     forall p, abs_pages b' p = true <-> abs_pages b p = true /\ p <> i).
Proof. exact single_bit_lemma. Qed.

(* the read accessors return membership; nothing at or beyond the page count is a member *)
Theorem C09_reads : forall b, bm_inv b ->
  (forall i, bm_is_bit_set_o b i = Val (abs_pages b i)) /\
  (forall a, bm_is_addr_set_o b a = Val (abs_pages b (a / bm_ps b))) /\
  (forall a, bm_dirty_at_o b a = Val (abs_pages b (a / bm_ps b))) /\
  (forall p, abs_pages b p = true -> p < bm_len b).
Proof. exact reads_lemma. Qed.

(* fetch-and-clear returns the set (bit i of word w = page 64w+i, no bit at or beyond the page
   count, u64 words, ceil(pages/64) of them) and leaves the empty set *)
Theorem C09_harvest : forall b, bm_inv b ->
  let ws := fst (bm_get_and_reset b) in let b' := snd (bm_get_and_reset b) in
  N.of_nat (length ws) = div_ceil (bm_len b) 64 /\ Forall (fun w => w < W64) ws /\
  (forall w i, i < 64 -> N.testbit (nth (N.to_nat w) ws 0) i = abs_pages b (64 * w + i)) /\
  (forall w i, i < 64 -> N.testbit (nth (N.to_nat w) ws 0) i = true -> 64 * w + i < bm_len b) /\
  bm_inv b' /\ bm_len b' = bm_len b /\ bm_get_byte_size b' = bm_get_byte_size b /\ bm_ps b' = bm_ps b /\
  (forall p, abs_pages b' p = false).
Proof. exact harvest_lemma. Qed.

Theorem C09_reset : forall b, bm_inv b ->
  bm_inv (bm_reset b) /\ bm_len (bm_reset b) = bm_len b /\
  bm_get_byte_size (bm_reset b) = bm_get_byte_size b /\ forall p, abs_pages (bm_reset b) p = false.
Proof. exact reset_lemma. Qed.

(* enlarging (total byte size a usize, both build profiles) keeps every mark, never shrinks, and
   the added pages are clean (abs_pages is unchanged and was false beyond the old count) *)
Theorem C09_enlarge : forall m b add, bm_inv b -> bm_get_byte_size b + add < W64 ->
  exists b', bm_enlarge_o m b add = Val b' /\ bm_inv b' /\
    bm_get_byte_size b' = bm_get_byte_size b + add /\ bm_ps b' = bm_ps b /\
    bm_len b' = div_ceil (bm_get_byte_size b + add) (bm_ps b) /\ bm_len b <= bm_len b' /\
    forall p, abs_pages b' p = abs_pages b p.
Proof. exact enlarge_lemma. Qed.

(* OUTSIDE the property (recorded, not hidden): when the summed byte size does not fit a usize,
   enlarge panics in builds with overflow checks and wraps in builds without; after the wrap the
   bitmap is smaller and keeps a stale bit at or beyond its page count *)
Theorem C09_enlarge_overflow_outside :
  bm_inv wrap_witness /\ W64 <= bm_get_byte_size wrap_witness + (W64 - 50) /\
  (exists s, bm_enlarge_o Debug wrap_witness (W64 - 50) = Panic s) /\
  exists b', bm_enlarge_o Release wrap_witness (W64 - 50) = Val b' /\ bm_len b' = 50 /\
             raw_bit b' 60 = true /\ ~ bm_inv b'.
Proof. exact enlarge_overflow_lemma. Qed.

(* a clone is the same value: being a separate value it is independent (C09_history covers
   operation sequences on both) *)
Theorem C09_clone : forall b, bm_clone b = b.
Proof. exact clone_eq. Qed.

(* slices of slices add their offsets (mod 2^64); a live view (bitmap, Option::Some, ArcSlice)
   marks / reads the underlying bitmap at the summed address; None and () mark nothing and read clean *)
Theorem C09_slice_compose : forall base o1 o2,
  bs_slice_at (bs_slice_at base o1) o2 = (base + o1 + o2) mod W64.
Proof. exact slice_compose_lemma. Qed.

Theorem C09_views : forall r chain b off len, forallb u64b chain = true -> off < W64 ->
  (route_live r = true ->
     view_mark_o r chain b off len = bm_mark_dirty_o b ((fold_right N.add 0 chain + off) mod W64) len /\
     view_dirty_at_o r chain b off = bm_dirty_at_o b ((fold_right N.add 0 chain + off) mod W64)) /\
  (route_live r = false ->
     view_mark_o r chain b off len = Val b /\ view_dirty_at_o r chain b off = Val false).
Proof. exact view_lemma. Qed.

(* every finite history: the model's bitmaps (all of them: the original, its clones) denote
   exactly the reference sets, and satisfy the invariant, after any sequence of operations *)
Theorem C09_history : forall m bytes ps ops ss', 0 < ps -> bytes < W64 -> forallb wf_op ops = true ->
  spec_final [ps_new bytes ps] ops = Some ss' ->
  Forall2 (fun b s => bm_inv b /\ bm_size b = ps_count s /\ bm_byte_size b = ps_bytes s /\
                      bm_ps b = ps_page s /\ forall p, abs_pages b p = ps_mem s p)
          (model_final m [bm_new bytes ps] ops) ss'.
Proof. exact history_lemma. Qed.

(* non-vacuity: 10 bytes in 3-byte pages = 4 pages; a range straddling pages 1..3 and running
   past the end marks {1,2,3}; page 4 does not exist *)
Example C09_nonvacuous :
  wf_case {| c_mode := Debug; c_bytes := 10; c_ps := 3;
             c_ops := [OSetRange 0 5 18446744073709551615; OClone 0; OHarvest 0; OIsBitSet 1 3] |} = true /\
  bm_len (bm_new 10 3) = 4 /\
  map (abs_pages (bm_mark_dirty (bm_new 10 3) 5 18446744073709551615)) [0; 1; 2; 3; 4] = [false; true; true; true; false].
Proof. vm_compute. repeat split. Qed.

Print Assumptions C09_model_ok.
Print Assumptions C09_new.
Print Assumptions C09_with_len.
Print Assumptions C09_default.
Print Assumptions C09_set_range.
Print Assumptions C09_reset_range.
Print Assumptions C09_single_bit.
Print Assumptions C09_reads.
Print Assumptions C09_harvest.
Print Assumptions C09_reset.
Print Assumptions C09_enlarge.
Print Assumptions C09_enlarge_overflow_outside.
Print Assumptions C09_clone.
Print Assumptions C09_slice_compose.
Print Assumptions C09_views.
Print Assumptions C09_history.
