(* C04 - property theorems.  Statements only: each is closed by [exact] of a lemma from
   Proofs/C04.v, followed by Print Assumptions. *)
From VM Require Import Prelude.MachInt Prelude.Outcome Impl.VolMem Spec.C04 Suite.C04 Proofs.C04.

(* the implementation model satisfies the executable spec checker on every well-formed case:
   any container kind, build mode, base address, margins, container size, initial contents and
   any history of operations (unbounded length), by induction on the history *)
Theorem C04_model_ok : forall c, wf_case c = true -> ok_C04 c (run_C04 c) = true.
Proof. exact C04_model_ok_lemma. Qed.

Print Assumptions C04_model_ok.
