(* C04 - property theorems (statements only). *)
From VM Require Import Prelude.MachInt Prelude.Outcome Impl.VolMem Spec.C04 Suite.C04 Proofs.C04.

Theorem C04_takeN_is_firstn : forall l n, takeN n l = firstn (N.to_nat n) l.
Proof. exact takeN_firstn. Qed.

Print Assumptions C04_takeN_is_firstn.
