(* C04 - property theorems.  Statements only: each is closed by [exact] of a lemma from
   Proofs/C04.v, followed by Print Assumptions.
   Vocabulary: the host memory is a byte list h; the container is the window [pre, pre+n) of it,
   first heap byte at address hb;  len = length as N;  vs_write/vs_read/... are the transcribed
   accessors of Impl/VolMem.v;  model_step/heap_after run one operation / a history on the model
   (Suite/C04.v);  ok_C04 is the executable checker written from the property text (Spec/C04.v). *)
From VM Require Import Prelude.MachInt Prelude.Outcome Impl.VolMem Spec.C04 Suite.C04 Proofs.C04.
From VM Require Impl.CopyPlan Spec.C06 Proofs.LinkVolMemCopyPlan.

(* the implementation model satisfies the executable spec checker on every well-formed case:
   any container kind, build mode, base address, margins, container size, initial contents and
   any history of operations (unbounded length; induction on the history) *)
Theorem C04_model_ok : forall c, wf_case c = true -> ok_C04 c (run_C04 c) = true.
Proof. exact C04_model_ok_lemma. Qed.

(* Bytes::write on a container: empty buffer = Ok(0) no-op; >= 1 byte at or past the end = error,
   nothing moved; otherwise exactly kk = min(|buf|, n - addr) bytes are reported and moved, byte i
   of the buffer to container offset addr+i (address order), and every other byte of the host
   memory - inside the container and in the margins around it - is unchanged *)
Theorem C04_write_exact : forall hb pre n h buf addr,
  pre + n <= len h -> hb + len h <= ISZ_MAX ->
  let h' := fst (vs_write hb h {| vs_addr := pre; vs_size := n |} buf addr) in
  let res := snd (vs_write hb h {| vs_addr := pre; vs_size := n |} buf addr) in
  (len buf = 0 -> res = Ok 0 /\ h' = h) /\
  (0 < len buf -> n <= addr -> res = Err EOutOfBounds /\ h' = h) /\
  (0 < len buf -> addr < n ->
     let kk := N.min (len buf) (n - addr) in
     res = Ok kk /\ length h' = length h /\
     (forall i, i < kk -> nth (N.to_nat (pre + addr + i)) h' 0 = nth (N.to_nat i) buf 0) /\
     (forall j, j < pre + addr \/ pre + addr + kk <= j -> nth (N.to_nat j) h' 0 = nth (N.to_nat j) h 0)).
Proof. exact write_exact_lemma. Qed.

(* Bytes::read: the mirror image; the caller's buffer beyond the transferred prefix is unchanged
   (the host memory is not an output of vs_read at all) *)
Theorem C04_read_exact : forall hb pre n h buf addr,
  pre + n <= len h -> hb + len h <= ISZ_MAX ->
  let b' := fst (vs_read hb h {| vs_addr := pre; vs_size := n |} buf addr) in
  let res := snd (vs_read hb h {| vs_addr := pre; vs_size := n |} buf addr) in
  (len buf = 0 -> res = Ok 0 /\ b' = buf) /\
  (0 < len buf -> n <= addr -> res = Err EOutOfBounds /\ b' = buf) /\
  (0 < len buf -> addr < n ->
     let kk := N.min (len buf) (n - addr) in
     res = Ok kk /\ length b' = length buf /\
     (forall i, i < kk -> nth (N.to_nat i) b' 0 = nth (N.to_nat (pre + addr + i)) h 0) /\
     (forall i, kk <= i -> nth (N.to_nat i) b' 0 = nth (N.to_nat i) buf 0)).
Proof. exact read_exact_lemma. Qed.

(* write_slice / read_slice move exactly what write / read move, and succeed iff the whole
   buffer fits (a cut-off transfer is reported as an error, never as success) *)
Theorem C04_slice_forms_all_or_error : forall hb pre n h buf addr,
  pre + n <= len h -> hb + len h <= ISZ_MAX ->
  let C := {| vs_addr := pre; vs_size := n |} in
  fst (vs_write_slice hb h C buf addr) = fst (vs_write hb h C buf addr) /\
  fst (vs_read_slice hb h C buf addr) = fst (vs_read hb h C buf addr) /\
  (snd (vs_write_slice hb h C buf addr) = Ok tt <-> len buf = 0 \/ addr + len buf <= n) /\
  (snd (vs_read_slice hb h C buf addr) = Ok tt <-> len buf = 0 \/ addr + len buf <= n).
Proof. exact slice_forms_lemma. Qed.

(* element-count laws: VolatileArrayRef::copy_to reports min(|buf|, nelem) for every element
   size (zero-sized included) and keeps the buffer length; VolatileSlice::copy_to::<T> reports
   min(|buf|, size / size_of T), and |buf| for zero-sized T *)
Theorem C04_array_copy_to_count : forall m h t aa cnt buf,
  aa + cnt * st_size t <= len h -> cnt * st_size t < W64 ->
  exists b', va_copy_to m h {| va_addr := aa; va_nelem := cnt |} (vt t) buf = Val (b', N.min (len buf) cnt)
             /\ length b' = length buf.
Proof. exact arr_copy_to_count_lemma. Qed.

Theorem C04_slice_copy_to_count : forall m h t sa ss buf,
  sa + ss <= len h -> ss <= ISZ_MAX ->
  exists b', vs_copy_to m h {| vs_addr := sa; vs_size := ss |} (vt t) buf =
             Val (b', if st_size t =? 0 then len buf else N.min (len buf) (ss / st_size t))
             /\ length b' = length buf.
Proof. exact sl_copy_to_count_lemma. Qed.

(* all routes observe the same memory: after ANY history ops (induction), on any of the three
   container kinds, a value v of a type of >= 1 byte stored at byte offset off through any store
   route (write_obj, VolatileRef::store, atomic store when aligned, VolatileArrayRef::store of the
   element lying at off) succeeds, and loading through any load route (read_obj, VolatileRef::load,
   atomic load, VolatileArrayRef::load) then succeeds and returns v *)
Theorem C04_routes_agree : forall k m hb pre n h0 ops t v off s l,
  k <= 2 -> pre + n <= len h0 -> hb + len h0 <= ISZ_MAX -> forallb wf_op ops = true ->
  1 <= st_size t -> v < 256 ^ st_size t -> off + st_size t <= n ->
  store_route hb pre n t v off s -> load_route hb pre n t off l ->
  let r := {| mr_addr := pre; mr_size := n |} in
  let h := heap_after k m hb r h0 ops in
  let x := model_step k m hb r h s in
  let y := model_step k m hb r (mo_heap x) l in
  mo_kind x = 0 /\ mo_kind y = 0 /\ mo_n y = v.
Proof. exact routes_agree_lemma. Qed.

(* non-vacuity: a 5-byte container at offset 64 of a 133-byte buffer; a 3-byte write at 3 is cut
   off to 2 bytes, lands at heap positions 67,68 only; then the u16 stored through an array
   element is loaded through read_obj, big-endian wrapper included *)
Example C04_nonvacuous :
  let h := init_heap 133 0 9 in
  let C := {| vs_addr := 64; vs_size := 5 |} in
  vs_write 4032 h C [1; 2; 3] 3 = (h_write h 67 [1; 2], Ok 2) /\
  snd (vs_write 4032 h C [1] 5) = Err EOutOfBounds /\
  wf_case {| c_kind := 2; c_mode := Debug; c_hb := 4032; c_pre := 64; c_n := 5; c_heap := h;
             c_ops := [OArrStore {| st_size := 2; st_be := true |} 1 2 1 4660;
                       OReadObj {| st_size := 2; st_be := true |} 3] |} = true /\
  map o_n (run_C04 {| c_kind := 2; c_mode := Debug; c_hb := 4032; c_pre := 64; c_n := 5; c_heap := h;
             c_ops := [OArrStore {| st_size := 2; st_be := true |} 1 2 1 4660;
                       OReadObj {| st_size := 2; st_be := true |} 3] |}) = [0; 4660] /\
  store_route 4032 64 5 {| st_size := 2; st_be := true |} 4660 3
              (OArrStore {| st_size := 2; st_be := true |} 1 2 1 4660).
Proof.
  cbv zeta. split; [vm_compute; reflexivity|]. split; [vm_compute; reflexivity|].
  split; [vm_compute; reflexivity|]. split; [vm_compute; reflexivity|].
  right. right. right. exists 1, 2, 1. cbn [st_size]. split; [reflexivity|]. lia.
Qed.

Print Assumptions C04_model_ok.
Print Assumptions C04_write_exact.
Print Assumptions C04_read_exact.
Print Assumptions C04_slice_forms_all_or_error.
Print Assumptions C04_array_copy_to_count.
Print Assumptions C04_slice_copy_to_count.
Print Assumptions C04_routes_agree.

(* ---------------------------------------------------------------------------------------------
   LINK to C06 (Proofs/LinkVolMemCopyPlan.v).  The model above treats copy_slice as memcpy on the
   heap byte list.  C06 transcribes the real copy_slice as a plan of primitive accesses and proves
   that executing a plan on a byte memory (address -> byte) is memcpy.  Joined here:
   [image base l mm] = the byte memory mm holds the byte list l at host address base;
   [run_plan p mm] = C06's execution of plan p; [placed] = heap and caller's buffer are two
   non-null, non-wrapping, disjoint allocations and the slice lies inside the heap. *)

(* Bytes::write: whenever the model stores n bytes of a non-empty buffer, the real copy_slice has a
   plan (it never panics) for exactly the pointers involved - destination hb + slice + addr inside
   the heap, source the buffer - and count n, and running that plan on ANY byte memory holding
   heap and buffer yields a memory holding the model's resulting heap; the buffer is unchanged *)
Theorem C04_write_is_copy_plan : forall md hb h s buf addr bp mm h' n,
  LinkVolMemCopyPlan.placed hb h s bp buf -> 0 < len buf ->
  LinkVolMemCopyPlan.image hb h mm -> LinkVolMemCopyPlan.image bp buf mm ->
  vs_write hb h s buf addr = (h', Ok n) ->
  exists p, CopyPlan.copy_slice md (hb + (vs_addr s + addr)) bp n = Val p /\
            LinkVolMemCopyPlan.image hb h' (LinkVolMemCopyPlan.run_plan p mm) /\
            LinkVolMemCopyPlan.image bp buf (LinkVolMemCopyPlan.run_plan p mm) /\
            n = N.min (vs_size s - addr) (len buf) /\ addr < vs_size s.
Proof. exact LinkVolMemCopyPlan.vs_write_is_plan_lemma. Qed.

(* Bytes::read: the plan runs from the heap to the buffer; the heap is unchanged *)
Theorem C04_read_is_copy_plan : forall md hb h s buf addr bp mm b' n,
  LinkVolMemCopyPlan.placed hb h s bp buf -> 0 < len buf ->
  LinkVolMemCopyPlan.image hb h mm -> LinkVolMemCopyPlan.image bp buf mm ->
  vs_read hb h s buf addr = (b', Ok n) ->
  exists p, CopyPlan.copy_slice md bp (hb + (vs_addr s + addr)) n = Val p /\
            LinkVolMemCopyPlan.image bp b' (LinkVolMemCopyPlan.run_plan p mm) /\
            LinkVolMemCopyPlan.image hb h (LinkVolMemCopyPlan.run_plan p mm) /\
            n = N.min (vs_size s - addr) (len buf) /\ addr < vs_size s.
Proof. exact LinkVolMemCopyPlan.vs_read_is_plan_lemma. Qed.

(* the two copy helpers themselves, for any destination slice / count (every accessor of the
   model that moves bytes goes through one of them) *)
Theorem C04_copy_helpers_are_copy_plans : forall md hb h s buf total bp p mm,
  Spec.C06.valid_ptr bp total -> Spec.C06.valid_ptr (hb + vs_addr s) total ->
  bp + len buf <= hb \/ hb + len h <= bp -> total <= len buf -> vs_addr s + total <= len h ->
  LinkVolMemCopyPlan.image hb h mm -> LinkVolMemCopyPlan.image bp buf mm ->
  (CopyPlan.copy_slice md (hb + vs_addr s) bp total = Val p ->
     LinkVolMemCopyPlan.image hb (fst (copy_to_volatile_slice h s buf total)) (LinkVolMemCopyPlan.run_plan p mm) /\
     LinkVolMemCopyPlan.image bp buf (LinkVolMemCopyPlan.run_plan p mm) /\
     snd (copy_to_volatile_slice h s buf total) = total) /\
  (CopyPlan.copy_slice md bp (hb + vs_addr s) total = Val p ->
     LinkVolMemCopyPlan.image bp (fst (copy_from_volatile_slice h buf s total)) (LinkVolMemCopyPlan.run_plan p mm) /\
     LinkVolMemCopyPlan.image hb h (LinkVolMemCopyPlan.run_plan p mm) /\
     snd (copy_from_volatile_slice h buf s total) = total).
Proof. exact LinkVolMemCopyPlan.copy_helpers_lemma. Qed.

Print Assumptions C04_write_is_copy_plan.
Print Assumptions C04_read_is_copy_plan.
Print Assumptions C04_copy_helpers_are_copy_plans.

(* suite C04big (one LARGE bulk transfer, contents as patterns, judged from lengths): for every
   route, element size 1..16, container / buffer / count below 2^32, the length-level model
   (error class, reported count, written heap range) satisfies the length-level checker *)
Theorem C04big_model_ok : forall c, wf_big c = true -> ok_C04big c (run_C04big c) = true.
Proof. exact C04big_model_ok_lemma. Qed.
Print Assumptions C04big_model_ok.
