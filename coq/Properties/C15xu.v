(* C15, Xen build, the constructors an ordinary caller reaches for a Xen-UNIX range (suite C15xu, 0.7.w5):
   MmapRange::new_unix + MmapRegion::from_range, GuestRegionMmap::from_range, from_ranges_with_files - in
   particular with a BACKING FILE.  Statements only; proofs in Proofs/C15xu.v.
   Partial claim as for Properties/C15.v: OS answers are universally quantified inputs; that the kernel's
   MAP_SHARED mapping is coherent with the file is OS behaviour, tested by the harness (pwrite -> region,
   region -> pread), not proved. *)
From VM Require Import Prelude.MachInt Prelude.Outcome Impl.MmapBuild Impl.Xen Spec.C15 Suite.C15
  Spec.C15xu Suite.C15xu Proofs.C15xu.

(* the transcription satisfies the executable checker ok_C15xu on EVERY well-formed request: any route, size,
   file length and offset, guest base, label, page size, and either answer of the kernel to the mmap *)
Theorem C15xu_model_ok : forall c probe, wf_u c = true -> probe < 2 -> ok_C15xu c (run_C15xu c probe) = true.
Proof. exact C15xu_model_ok_lemma. Qed.

(* MmapRange::new_unix: a range WITH a file asks for a SHARED, not anonymous mapping of it; a range without a
   file for an anonymous one; never MAP_FIXED; protection left to the default; mapping type UNIX *)
Theorem C15_new_unix_flags : forall size file addr,
  exists fl, x_flags (new_unix size file addr) = Some fl /\ hasbit fl MAP_FIXED = false /\
    match file with
    | Some _ => hasbit fl MAP_SHARED = true /\ hasbit fl MAP_ANONYMOUS = false
    | None => hasbit fl MAP_ANONYMOUS = true /\ hasbit fl MAP_SHARED = false end /\
  x_prot (new_unix size file addr) = None /\ x_mflags (new_unix size file addr) = 0 /\
  x_file (new_unix size file addr) = file /\ x_size (new_unix size file addr) = size.
Proof. exact new_unix_flags_lemma. Qed.

(* GuestRegionMmap::from_range of the Xen build (and with it from_ranges_with_files): it never panics; it
   succeeds EXACTLY when the file range (if any) neither overflows nor passes the end of the file, the kernel
   grants the mapping and base + size < 2^64; the region then reports the requested size and file/offset,
   read-write protection, mapping type UNIX, and the ONE successful mmap in the log was made with exactly the
   reported protection and flags - shared and not anonymous for a file, anonymous without one; every failing
   path leaves the mmap/munmap log balanced (nothing stays mapped) *)
Theorem C15_xen_from_range_exact : forall m o base size file,
  exists r l, xen_guest_from_range m o base size file = Val (r, l) /\
    ((exists g, r = Ok g) <-> file_fits o size file /\ os_mmap_ok o = true /\ base + size < W64) /\
    (forall g, r = Ok g ->
       xr_size g = size /\ xr_file g = file /\ xr_prot g = N.lor PROT_READ PROT_WRITE /\ xr_mflags g = 0 /\
       In (EvMmap size (xr_prot g) (xr_flags g) (match file with Some _ => true | None => false end)
                  (match file with Some s => s | None => 0 end) true) l /\
       match file with
       | Some _ => hasbit (xr_flags g) MAP_SHARED = true /\ hasbit (xr_flags g) MAP_ANONYMOUS = false
       | None => hasbit (xr_flags g) MAP_ANONYMOUS = true end /\
       mm_balance l = 1%Z) /\
    (forall e, r = Err e -> mm_balance l = 0%Z).
Proof. exact xen_from_range_exact_lemma. Qed.

(* the hugetlbfs label of the range comes back from the region unchanged (it is no field of the request the
   decision functions see: it cannot decide anything) *)
Theorem C15_xen_label_reported : forall h, h < 3 -> huge_code (xen_region_huge (huge_opt h)) = h.
Proof. exact xen_label_lemma. Qed.

(* non-vacuity: a file-backed Xen-UNIX region ending exactly at EOF is created shared; one byte more is refused;
   a base that makes the region end at 2^64 is refused and the mapping is released again *)
Example C15xu_nonvacuous :
  let o := {| os_page := 4096; os_filesize := 8192; os_mmap_ok := true; os_ioctl_ok := true |} in
  (exists g l, xen_guest_from_range Debug o 4096 4096 (Some 4096) = Val (Ok g, l) /\ xr_flags g = 16385 /\
               l = [EvSeekEnd; EvRewind; EvMmap 4096 3 16385 true 4096 true]) /\
  (exists l, xen_guest_from_range Debug o 4096 4097 (Some 4096) = Val (Err MappingPastEof, l)) /\
  xen_guest_from_range Debug o (W64 - 4096) 4096 None =
    Val (Err InvalidGuestRegion, [EvMmap 4096 3 34 false 0 true; EvMunmap 4096]).
Proof. vm_compute. repeat split; repeat eexists. Qed.

Print Assumptions C15xu_model_ok.
Print Assumptions C15_new_unix_flags.
Print Assumptions C15_xen_from_range_exact.
Print Assumptions C15_xen_label_reported.
