(* C11 - a memory-map snapshot stays whole and usable while the map is being replaced.
   Statements only; proofs in Proofs/C11.v.  The machine (Impl/Rcu.v) has one step per call of
   src/atomic.rs; [run l] executes ANY list of steps from the initial state, skipping the steps that
   are not enabled (a blocked lock(), an operation on a handle that does not exist), so "forall l"
   is "for every interleaving of any number of reader and updater threads and handles".
   PARTIAL (see manifest level_note): granularity is load / store / lock / unlock; arc-swap's
   internals, real preemption inside those calls and the kernel are trusted, not modelled. *)
From VM Require Import Prelude.MachInt Prelude.Tok Impl.Rcu Spec.C11 Suite.C11 Proofs.C11.

(* the machine satisfies the executable checker (which knows no reference counts, only who can
   still reach a map) on every sequential history of wire operations *)
Theorem C11_model_ok : forall ops, ok_C11 ops (run_C11 ops) = true.
Proof. exact C11_model_ok_lemma. Qed.

(* a snapshot shows one map that was current at some moment: memory() returns the map in the cell
   at that moment, and every live handle (guard, clone, owned Arc) shows a map that was the content
   of the cell after some prefix of the history *)
Theorem C11_snapshot_was_current : forall l i h,
  nth_error (handles (run l)) i = Some (Some h) ->
  exists l1 l2, l = l1 ++ l2 /\ cell (run l1) = h_map h.
Proof. exact snapshot_was_current_lemma. Qed.

Theorem C11_load_shows_cell : forall l t, exists s',
  exec (Load t) (run l) = Some (s', cell (run l)) /\
  nth_error (handles s') (length (handles (run l))) = Some (Some {| h_kind := KGuard; h_map := cell (run l) |}).
Proof. exact load_shows_cell_lemma. Qed.

(* a handle keeps showing the same map until it is dropped, whatever happens meanwhile (any number
   of replacements); a dropped handle id is never reused *)
Theorem C11_snapshot_stable : forall l1 l2 i h,
  nth_error (handles (run l1)) i = Some (Some h) ->
  nth_error (handles (run (l1 ++ l2))) i = Some None \/
  exists h', nth_error (handles (run (l1 ++ l2))) i = Some (Some h') /\ h_map h' = h_map h.
Proof. exact snapshot_stable_lemma. Qed.

Theorem C11_dropped_stays_dropped : forall l1 l2 i,
  nth_error (handles (run l1)) i = Some None -> nth_error (handles (run (l1 ++ l2))) i = Some None.
Proof. exact dropped_stays_dropped_lemma. Qed.

(* the map behind every live handle, and the current map, has not been freed (its regions are still
   mapped) and has a positive strong count; no use-after-free or count underflow ever happens *)
Theorem C11_alive_while_referenced : forall l,
  bad (run l) = false /\ freed (run l) (cell (run l)) = false /\
  forall i h, nth_error (handles (run l)) i = Some (Some h) ->
    freed (run l) (h_map h) = false /\ (0 < rc (run l) (h_map h))%nat.
Proof. exact alive_while_referenced_lemma. Qed.

(* the strong count of every map is exactly the number of live handles showing it, plus one if it
   is the current map *)
Theorem C11_rc_counts : forall l g,
  rc (run l) g = (refs g (handles (run l)) + (if N.eqb g (cell (run l)) then 1 else 0))%nat.
Proof. exact rc_counts_lemma. Qed.

(* a replaced map that no handle shows any more has been freed *)
Theorem C11_freed_when_unreferenced : forall l g,
  g < nmaps (run l) -> g <> cell (run l) ->
  (forall i h, nth_error (handles (run l)) i = Some (Some h) -> h_map h <> g) ->
  freed (run l) g = true.
Proof. exact freed_when_unreferenced_lemma. Qed.

Theorem C11_freed_iff_unreachable : forall l g, g < nmaps (run l) ->
  (freed (run l) g = false <->
   g = cell (run l) \/ exists i h, nth_error (handles (run l)) i = Some (Some h) /\ h_map h = g).
Proof. exact freed_iff_unreachable_lemma. Qed.

(* once a replacement has stored its map, every snapshot taken afterwards - by any thread, after any
   steps that are not another store - shows the new map, which is fresh (no older handle shows it) *)
Theorem C11_after_replace_new : forall l t s1 v, exec (Store t) (run l) = Some (s1, v) ->
  v = nmaps (run l) /\ cell s1 = v /\
  (forall i h, nth_error (handles (run l)) i = Some (Some h) -> h_map h <> v) /\
  forall l2, forallb (fun st => negb (is_store st)) l2 = true ->
    forall t', exists s2, exec (Load t') (run_from l2 s1) = Some (s2, v).
Proof. exact after_replace_new_lemma. Qed.

(* updaters exclude one another: at most one thread is between Lock and Unlock, exactly when the
   mutex is held *)
Theorem C11_mutual_exclusion : forall l,
  (mutex (run l) = true <-> exists t, upd (run l) t <> UIdle) /\
  (forall t1 t2, upd (run l) t1 <> UIdle -> upd (run l) t2 <> UIdle -> t1 = t2).
Proof. exact mutual_exclusion_lemma. Qed.

(* a store happens with the mutex held before AND after it (replace unlocks after publishing), by the
   only non-idle updater, and the map it derived its new map from is still the current one *)
Theorem C11_store_under_lock : forall l t s1 v, exec (Store t) (run l) = Some (s1, v) ->
  mutex (run l) = true /\ mutex s1 = true /\ (forall b, upd (run l) t = UDerived b -> b = cell (run l)) /\
  (forall t', t' <> t -> upd (run l) t' = UIdle).
Proof. exact store_under_lock_lemma. Qed.

(* no replacement is lost: the stores form a chain ending in the current map - each replaced the map
   stored just before it and, when derived from a map read under the lock, was derived from exactly
   that map *)
Theorem C11_no_lost_replace : forall l, chain (log (run l)) (cell (run l)).
Proof. exact no_lost_replace_lemma. Qed.

(* ... hence with updaters that derive "tag + 1" from the map read under the lock, the current tag is
   the number of replacements, on every schedule (what suite C11mt measures) *)
Theorem C11_no_lost_replace_count : forall l, all_derived (log (run l)) = true ->
  gen (run l) (cell (run l)) = N.of_nat (length (log (run l))).
Proof. exact no_lost_replace_count_lemma. Qed.

(* non-vacuity: a history with two readers and two updaters in which a guard taken before two
   replacements still shows map 0, map 1 was freed, the second updater was blocked, tag = 2 *)
Example C11_nonvacuous :
  let l := [Load 0; Lock 1; Lock 2; ReadCur 1; Store 1; Load 3; Unlock 1; Lock 2; ReadCur 2; DropH 1; Store 2; Unlock 2; CloneH 0] in
  cell (run l) = 2 /\ freed (run l) 0 = false /\ freed (run l) 1 = true /\
  option_map (option_map h_map) (nth_error (handles (run l)) 2) = Some (Some 0) /\
  gen (run l) (cell (run l)) = 2 /\ all_derived (log (run l)) = true /\ mutex (run l) = false /\
  ok_C11 [WLoad 0; WLock 1; WLock 2; WReadCur 1; WReplace 1; WClone 0; WDrop 0; WDrop 1] 
         (run_C11 [WLoad 0; WLock 1; WLock 2; WReadCur 1; WReplace 1; WClone 0; WDrop 0; WDrop 1]) = true.
Proof. vm_compute. repeat split. Qed.

Print Assumptions C11_model_ok.
Print Assumptions C11_snapshot_was_current.
Print Assumptions C11_load_shows_cell.
Print Assumptions C11_snapshot_stable.
Print Assumptions C11_dropped_stays_dropped.
Print Assumptions C11_alive_while_referenced.
Print Assumptions C11_rc_counts.
Print Assumptions C11_freed_when_unreferenced.
Print Assumptions C11_freed_iff_unreachable.
Print Assumptions C11_after_replace_new.
Print Assumptions C11_mutual_exclusion.
Print Assumptions C11_store_under_lock.
Print Assumptions C11_no_lost_replace.
Print Assumptions C11_no_lost_replace_count.
