(* C11 - property theorems (statements only). *)
From VM Require Import Prelude.MachInt Prelude.Tok Impl.Rcu Spec.C11 Suite.C11 Proofs.C11.

Theorem C11_load_shows_cell : forall l t s' v, exec (Load t) (run l) = Some (s', v) -> v = cell (run l).
Proof. exact load_shows_cell_lemma. Qed.

Print Assumptions C11_load_shows_cell.
