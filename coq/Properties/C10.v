(* C10 - Adding or removing a region yields a new valid map and leaves the old one intact.
   Statements only; proofs in Proofs/Mmap.v (generic in the region type A with accessors
   rs = start_addr, rl = len) and Proofs/C10.v.  Maps are persistent values in the model, so
   "the old map is intact" holds by construction there; its content is in the correspondence
   (harness/src/suites/c10.rs keeps every earlier object alive and re-checks it after each step). *)
From Coq Require Import Sorting.Sorted Sorting.Permutation.
From VM Require Import Prelude.MachInt Prelude.Outcome Impl.Mmap Proofs.Mmap Spec.C10 Suite.C10 Proofs.C10.

(* A region whose end would exceed the address space is refused at creation (the code also
   refuses the region ending exactly at 2^64); every other request is granted. *)
Theorem C10_region_new_refuses : forall (A : Type) (mk : N -> N -> A) base size,
  (W64 <= base + size -> region_new mk base size = Err EInvalidGuestRegion) /\
  (base + size < W64 -> region_new mk base size = Ok (mk base size)).
Proof. exact @region_new_refuses_lemma. Qed.

(* EVERY constructor route (0.7.w5): GuestRegionMmap::from_range with or without a backing file, in the standard
   and in the Xen build (= the mapping step, then GuestRegionMmap::new) creates exactly the region asked for, and
   only one that has at least one byte and ends below 2^64; a request with base + size >= 2^64 is refused by
   every route; a request that fits, whose file (if any) covers the range, is granted *)
Theorem C10_every_route_refuses : forall (A : Type) (mk : N -> N -> A) base size file,
  (forall g, region_from_range_opt mk base size file = Ok g -> g = mk base size /\ 1 <= size /\ base + size < W64) /\
  (W64 <= base + size -> exists e, region_from_range_opt mk base size file = Err e) /\
  (1 <= size -> base + size < W64 ->
   match file with Some (start, flen) => start + size <= flen /\ start + size < W64 | None => True end ->
   region_from_range_opt mk base size file = Ok (mk base size)).
Proof. exact every_route_refuses_lemma. Qed.

(* from_ranges / from_ranges_with_files: the regions handed to from_regions are the requested ranges, each
   creatable (>= 1 byte, end < 2^64); one range that does not fit (or is empty) and no map is built at all *)
Theorem C10_ranges_with_files_refuse : forall (A : Type) (rs rl : A -> N) (mk : N -> N -> N -> A),
  (forall id b s, rs (mk id b s) = b /\ rl (mk id b s) = s) ->
  forall id l,
  (forall L, collect_ranges_files mk id l = Ok L ->
     Forall (region_ok rs rl) L /\ map (fun g => (rs g, rl g)) L = map fst l) /\
  (forall s len fl, In (s, len, fl) l -> W64 <= s + len \/ len = 0 ->
     exists e, collect_ranges_files mk id l = Err e).
Proof. exact ranges_with_files_refuse_lemma. Qed.

(* with the backing files of the harness (file_of_tag: a file that covers the range) every route decides like
   the spelled-out MmapRegion::new + GuestRegionMmap::new *)
Theorem C10_routes_agree : forall (A : Type) (mk : N -> N -> A) (mk3 : N -> N -> N -> A) f base size id l,
  region_from_range_opt mk base size (file_of_tag f size) = region_from_range mk base size /\
  collect_ranges_files mk3 id (with_files l) = collect_ranges mk3 id (strip_files l).
Proof. exact routes_agree_lemma. Qed.

(* OBJECTS GOING AWAY (0.7.w5b): destroying the map (or handle) of one slot empties that slot and is the identity on
   every other slot - whatever was derived from it or it was derived from keeps its regions.  (In the model regions
   are values shared by list elements; that the real Arc-shared MEMORY survives the destruction of another object is
   the `intact` verdict of the correspondence runs, which C10_model_ok demands after every ODropMap / ODropRemoved.) *)
Theorem C10_drop_leaves_others_intact : forall (T : Type) (l : list (option T)) (i j : N),
  get (drop_slot l (N.to_nat i)) i = None /\
  (j <> i -> get (drop_slot l (N.to_nat i)) j = get l j).
Proof. exact drop_leaves_others_intact_lemma. Qed.

(* wf_layout (non-empty regions ending below 2^64, strictly sorted, pairwise disjoint) is the same as
   "every region lies entirely below every later one" *)
Theorem C10_wf_layout_before : forall (A : Type) (rs rl : A -> N) L,
  wf_layout rs rl L <-> Forall (region_ok rs rl) L /\ StronglySorted (before rs rl) L.
Proof. exact @wf_layout_before. Qed.

(* building: Ok exactly for the non-empty valid layouts, and then the list is returned unchanged;
   never a panic, in either build profile *)
Theorem C10_from_ok_iff : forall (A : Type) (rs rl : A -> N) m L L', Forall (region_ok rs rl) L ->
  (from_arc_regions rs rl m L = Val (Ok L') <-> L' = L /\ L <> [] /\ wf_layout rs rl L).
Proof. exact @from_ok_iff_lemma. Qed.

(* building: error classification - NoMemoryRegion for the empty list; otherwise the FIRST window
   (x,y) that is not "x entirely below y" decides: Unsorted if y starts below x, Overlap if y starts
   inside x (this includes equal starts and the one-byte overlap rs y = rs x + rl x - 1) *)
Theorem C10_from_err_iff : forall (A : Type) (rs rl : A -> N) m L e, Forall (region_ok rs rl) L ->
  (from_arc_regions rs rl m L = Val (Err e) <->
   (L = [] /\ e = ENoMemoryRegion) \/
   exists l1 x y l2, L = l1 ++ x :: y :: l2 /\ Sorted (before rs rl) (l1 ++ [x]) /\
     ((e = EUnsortedMemoryRegions /\ rs y < rs x) \/
      (e = EMemoryRegionOverlap /\ rs x <= rs y /\ rs y < rs x + rl x))).
Proof. exact @from_err_iff_lemma. Qed.

(* the model of Vec::sort_by_key is a stable sort: sorted, a permutation, equal keys keep their order *)
Theorem C10_stable_sort_spec : forall (A : Type) (rs : A -> N) l,
  Sorted (lek rs) (stable_sort rs l) /\ Permutation (stable_sort rs l) l /\
  forall k, filter (fun r => rs r =? k) (stable_sort rs l) = filter (fun r => rs r =? k) l.
Proof. exact stable_sort_spec_lemma2. Qed.

(* inserting: success gives a valid layout that is exactly the old regions plus the new one *)
Theorem C10_insert_ok : forall (A : Type) (rs rl : A -> N) m L r L',
  wf_layout rs rl L -> region_ok rs rl r ->
  insert_region rs rl m L r = Val (Ok L') -> wf_layout rs rl L' /\ Permutation L' (r :: L).
Proof. exact @insert_ok_lemma. Qed.

(* inserting: the only error is MemoryRegionOverlap, raised exactly when the new region shares an
   address with an old one; otherwise the insertion succeeds (never a panic) *)
Theorem C10_insert_err_iff : forall (A : Type) (rs rl : A -> N) m L r,
  wf_layout rs rl L -> region_ok rs rl r ->
  (forall e, insert_region rs rl m L r = Val (Err e) <->
             e = EMemoryRegionOverlap /\ exists x, In x L /\ overlaps rs rl r x) /\
  ((exists L', insert_region rs rl m L r = Val (Ok L')) <-> forall x, In x L -> ~ overlaps rs rl r x).
Proof. exact @insert_err_iff_lemma. Qed.

(* the boundary cases named by the property: overlap by one byte (either side) and equal starts are
   refused; a region adjacent to the only existing one is accepted *)
Theorem C10_insert_boundaries : forall (A : Type) (rs rl : A -> N) m L r x,
  wf_layout rs rl L -> region_ok rs rl r -> In x L ->
  (rs r = rs x + rl x - 1 -> insert_region rs rl m L r = Val (Err EMemoryRegionOverlap)) /\
  (rs r + rl r - 1 = rs x -> insert_region rs rl m L r = Val (Err EMemoryRegionOverlap)) /\
  (rs r = rs x -> insert_region rs rl m L r = Val (Err EMemoryRegionOverlap)) /\
  (L = [x] -> (rs r = rs x + rl x \/ rs r + rl r = rs x) ->
     exists L', insert_region rs rl m L r = Val (Ok L') /\ Permutation L' [r; x]).
Proof. exact @insert_boundaries_lemma. Qed.

(* removing: Ok exactly for a region with this start AND this size; the result is the old list
   without that one element (order kept) and the removed handle is that element *)
Theorem C10_remove_ok_iff : forall (A : Type) (rs rl : A -> N) L b s L' g, wf_layout rs rl L ->
  (remove_region rs rl L b s = Val (Ok (L', g)) <->
   exists l1 l2, L = l1 ++ g :: l2 /\ L' = l1 ++ l2 /\ rs g = b /\ rl g = s).
Proof. exact @remove_ok_iff_lemma. Qed.

(* removing: the only error is InvalidGuestRegion, exactly when no region matches start and size;
   the call never panics *)
Theorem C10_remove_err_iff : forall (A : Type) (rs rl : A -> N) L b s, wf_layout rs rl L ->
  (forall e, remove_region rs rl L b s = Val (Err e) <->
     e = EInvalidGuestRegion /\ forall g, In g L -> ~ (rs g = b /\ rl g = s)) /\
  (exists r, remove_region rs rl L b s = Val r).
Proof. exact @remove_err_iff_lemma. Qed.

(* std's bisection (fuel = len) meets the documented contract of binary_search_by_key on strictly
   increasing keys: no out-of-bounds read, no fuel exhaustion, Ok(index of a) or Err(#keys < a) *)
Theorem C10_binary_search_contract : forall keys a, StronglySorted N.lt keys ->
  binary_search keys a = Val (bs_contract keys a).
Proof. exact binary_search_contract. Qed.

(* the transcribed find_region (bisection + guard) never panics on a valid layout and equals the
   contract-level lookup mmap_find that other packages use *)
Theorem C10_find_region_eq : forall (A : Type) (rs rl : A -> N) m L a, wf_layout rs rl L ->
  find_region rs rl m L a = Val (mmap_find rs rl L a).
Proof. exact @find_region_eq. Qed.

(* INTERFACE: on a valid layout the lookup returns exactly the region that contains the address *)
Theorem C10_mmap_find_spec : forall (A : Type) (rs rl : A -> N) L, wf_layout rs rl L -> forall a r,
  mmap_find rs rl L a = Some r <-> In r L /\ rs r <= a /\ a <= rs r + rl r - 1.
Proof. exact @mmap_find_spec. Qed.

(* INTERFACE: every map obtainable from creatable regions through new / from_(arc_)regions /
   insert_region / remove_region, by histories of any length, is a valid layout *)
Theorem C10_wf_preserved : forall (A : Type) (rs rl : A -> N) m L, reachable rs rl m L -> wf_layout rs rl L.
Proof. exact @wf_preserved_lemma. Qed.

(* the implementation model satisfies the executable spec checker on EVERY history (any length, any
   operands, both build profiles): documented error class or new valid map = old set +/- one region *)
Theorem C10_model_ok : forall c, ok_C10 c (run_C10 c) = true.
Proof. exact C10_model_ok_lemma. Qed.

(* after ANY history of new / from_arc_regions / from_ranges / insert_region / remove_region /
   find_region every map ever produced is a valid layout consisting of live handles, and every
   live handle is a creatable region (>= 1 byte, end <= 2^64-1) *)
Theorem C10_history_valid : forall m ops,
  (forall j L, get (maps (m_final m st0 ops)) j = Some L ->
     wf_layout g_s g_l L /\ from_pool (pool (m_final m st0 ops)) L = true) /\
  (forall i g, get (pool (m_final m st0 ops)) i = Some g -> g_id g = i /\ region_ok g_s g_l g).
Proof. exact history_valid_lemma. Qed.

(* non-vacuity: a concrete history at the top of the address space - adjacent insertion accepted,
   one-byte overlap and duplicate start refused (Overlap), region ending at 2^64 refused at creation,
   removal with a wrong size / at a non-start address refused, exact removal returns the handle,
   lookup of the last byte of a region hits and the byte after it misses *)
Example C10_nonvacuous :
  let T := W64 - 24 in
  run_C10 {| c_mode := Debug; c_ops :=
    [OFromRanges [(T, 2); (T + 4, 3)]; ONew (T + 2) 2; OInsert 0 2; ONew (T + 6) 2; OInsert 1 3;
     ONew (T + 4) 1; OInsert 1 4; ONew (W64 - 2) 2; ORemove 1 (T + 2) 3; ORemove 1 (T + 3) 2;
     ORemove 1 (T + 2) 2; OFind 1 (T + 6); OFind 1 (T + 7); OFind 0 (T + 2)] |} =
  [mkobs 0 [mkreg 0 T 2; mkreg 1 (T + 4) 3]; mkobs 0 [];
   mkobs 0 [mkreg 0 T 2; mkreg 2 (T + 2) 2; mkreg 1 (T + 4) 3]; mkobs 0 []; mkobs 4 [];
   mkobs 0 []; mkobs 4 []; mkobs 1 []; mkobs 1 []; mkobs 1 [];
   mkobs 0 [mkreg 2 (T + 2) 2; mkreg 0 T 2; mkreg 1 (T + 4) 3];
   mkobs 0 [mkreg 1 (T + 4) 3]; mkobs 0 []; mkobs 0 []] /\
  wf_layout g_s g_l [mkreg 0 T 2; mkreg 2 (T + 2) 2; mkreg 1 (T + 4) 3].
Proof.
  split; [vm_compute; reflexivity|]. apply wf_layout_before. rewrite W64_val. split.
  - repeat constructor; cbn; lia.
  - repeat constructor; unfold before; cbn; lia.
Qed.

(* non-vacuity of the routes: at the top of the address space every route (spelled out, from_range without a
   file, with a file at offset 0 / 65536) creates the 4096-byte region ending at 2^64 - 2 and refuses the one whose
   end is 2^64; from_ranges_with_files builds the two-region map, and no map when the last range ends at 2^64 *)
Example C10_routes_nonvacuous :
  let B := W64 - 4097 in
  run_C10 {| c_mode := Debug; c_ops :=
    [ONew B 4096; ONewVia 0 B 4096; ONewVia 1 B 4096; ONewVia 2 B 4096;
     ONew (B + 1) 4096; ONewVia 0 (B + 1) 4096; ONewVia 1 (B + 1) 4096; ONewVia 2 (B + 2) 4096;
     OFromRangesF [(4096, 4096, 1); (B, 4096, 2)]; OFromRangesF [(4096, 4096, 0); (B + 1, 4096, 1)]] |} =
  [mkobs 0 []; mkobs 0 []; mkobs 0 []; mkobs 0 []; mkobs 1 []; mkobs 1 []; mkobs 1 []; mkobs 1 [];
   mkobs 0 [mkreg 8 4096 4096; mkreg 9 B 4096]; mkobs 1 []].
Proof. vm_compute. reflexivity. Qed.

(* non-vacuity of the drops: a map derived by insertion is dropped, the map it came from still answers; a dropped
   map is no operand any more *)
Example C10_drop_nonvacuous :
  run_C10 {| c_mode := Debug; c_ops :=
    [OFromRanges [(0, 2); (4, 3)]; ONew 2 2; OInsert 0 2; ODropMap 1; OFind 0 5; OFind 1 5; ODropMap 1;
     ORemove 0 4 3; ODropRemoved 0; ODropMap 0; OFind 2 0] |} =
  [mkobs 0 [mkreg 0 0 2; mkreg 1 4 3]; mkobs 0 []; mkobs 0 [mkreg 0 0 2; mkreg 2 2 2; mkreg 1 4 3]; mkobs 0 [];
   mkobs 0 [mkreg 1 4 3]; mkobs 8 []; mkobs 8 []; mkobs 0 [mkreg 1 4 3; mkreg 0 0 2]; mkobs 0 []; mkobs 0 [];
   mkobs 0 [mkreg 0 0 2]].
Proof. vm_compute. reflexivity. Qed.

Print Assumptions C10_model_ok.
Print Assumptions C10_history_valid.
Print Assumptions C10_region_new_refuses.
Print Assumptions C10_every_route_refuses.
Print Assumptions C10_ranges_with_files_refuse.
Print Assumptions C10_routes_agree.
Print Assumptions C10_drop_leaves_others_intact.
Print Assumptions C10_wf_layout_before.
Print Assumptions C10_from_ok_iff.
Print Assumptions C10_from_err_iff.
Print Assumptions C10_stable_sort_spec.
Print Assumptions C10_insert_ok.
Print Assumptions C10_insert_err_iff.
Print Assumptions C10_insert_boundaries.
Print Assumptions C10_remove_ok_iff.
Print Assumptions C10_remove_err_iff.
Print Assumptions C10_binary_search_contract.
Print Assumptions C10_find_region_eq.
Print Assumptions C10_mmap_find_spec.
Print Assumptions C10_wf_preserved.
