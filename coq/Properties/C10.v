(* C10 - property theorems (statements only; proofs in Proofs/C10.v). *)
From Coq Require Import Sorting.Sorted Sorting.Permutation.
From VM Require Import Prelude.MachInt Prelude.Outcome Impl.Mmap Spec.C10 Suite.C10 Proofs.C10.

(* A region whose end would exceed the address space is refused at creation (the code also
   refuses the region ending exactly at 2^64) and every other request is granted. *)
Theorem C10_region_new_refuses : forall (A : Type) (mk : N -> N -> A) base size,
  (W64 <= base + size -> region_new mk base size = Err EInvalidGuestRegion) /\
  (base + size < W64 -> region_new mk base size = Ok (mk base size)).
Proof. exact @region_new_refuses_lemma. Qed.

Print Assumptions C10_region_new_refuses.
