(* C18 - property theorems (statements only; proofs in Proofs/C18.v). *)
From VM Require Import Prelude.MachInt Prelude.Outcome Spec.C18 Suite.C18 Proofs.C18.
From VM Require Impl.VolMem Impl.Guest Impl.Dirty Impl.Io Impl.IoGuest.

Theorem C18_vs_write_empty : forall hb h s addr, VolMem.vs_write hb h s [] addr = (h, VolMem.Ok 0).
Proof. exact vs_write_empty. Qed.

Print Assumptions C18_vs_write_empty.
