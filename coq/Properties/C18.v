(* C18 - zero-length accesses are successful no-ops at every layer.  Statements only; every proof
   is `exact` of a lemma of Proofs/C18.v.  The models are the existing ones (Impl/VolMem.v, Guest.v,
   Io.v, IoGuest.v, Dirty.v) evaluated at length 0 / size_of T = 0, composed per entry point in
   Suite/C18.v (run_C18), which is what the correspondence runs compare with the real crate. *)
From VM Require Import Prelude.MachInt Prelude.Outcome Prelude.C1314List Spec.C18 Suite.C18 Proofs.C18.
From VM Require Impl.VolMem Impl.Guest Impl.Dirty Impl.Io Impl.IoGuest.

(* (1a) slice level: empty buffer / zero-sized object => Ok(0) / Ok(()), the memory is returned
   unchanged - for EVERY container (any size, incl. 0), EVERY offset (no bound at all, so also
   2^64-1 and beyond the container), every host base *)
Theorem C18_zero_len_slice : forall hb h s addr t v, VolMem.ty_size t = 0 ->
  VolMem.vs_write hb h s [] addr = (h, VolMem.Ok 0) /\
  VolMem.vs_read hb h s [] addr = ([], VolMem.Ok 0) /\
  VolMem.vs_write_slice hb h s [] addr = (h, VolMem.Ok tt) /\
  VolMem.vs_read_slice hb h s [] addr = ([], VolMem.Ok tt) /\
  VolMem.vs_write_obj hb h s t v addr = (h, VolMem.Ok tt) /\
  VolMem.vs_read_obj hb h s t addr = VolMem.Ok 0.
Proof. exact zero_len_slice_lemma. Qed.

(* ... and no mark: the four buffer forms make no mark_dirty call at all; every zero-length slice
   operation of the property (buffer, copy, stream forms: [zero_sop]) leaves every bitmap of every
   region list unchanged, for every accessor (any bitmap base offset, aligned to a page or not) *)
Theorem C18_zero_len_slice_marks : forall ri hm a addr rs, Dirty.a_kind a = Dirty.KSlice ->
  let effs o := Dirty.o_effs (Dirty.run_sop ri hm a o) in
  effs (Dirty.OWrite 0 addr) = [] /\ effs (Dirty.OWriteSlice 0 addr) = [] /\
  effs (Dirty.ORead 0 addr) = [] /\ effs (Dirty.OReadSlice 0 addr) = [] /\
  (forall o, zero_sop o -> Dirty.apply_effs rs (effs o) = rs).
Proof. exact zero_len_slice_marks_lemma. Qed.

(* (1b) region level (GuestRegionMmap: the same calls on as_volatile_slice().unwrap(), errors mapped
   into guest_memory::Error): the unwrap never panics and every form is Ok for every offset *)
Theorem C18_zero_len_region : forall hb h r addr t v, VolMem.mr_size r < W64 -> VolMem.ty_size t = 0 ->
  exists s, VolMem.mr_as_volatile_slice r = Val s /\ VolMem.vs_size s = VolMem.mr_size r /\
    VolMem.gm_res (snd (VolMem.vs_write hb h s [] addr)) = VolMem.Ok 0 /\ fst (VolMem.vs_write hb h s [] addr) = h /\
    VolMem.gm_res (snd (VolMem.vs_read hb h s [] addr)) = VolMem.Ok 0 /\
    VolMem.gm_res (snd (VolMem.vs_write_slice hb h s [] addr)) = VolMem.Ok tt /\ fst (VolMem.vs_write_slice hb h s [] addr) = h /\
    VolMem.gm_res (snd (VolMem.vs_read_slice hb h s [] addr)) = VolMem.Ok tt /\
    VolMem.gm_res (snd (VolMem.vs_write_obj hb h s t v addr)) = VolMem.Ok tt /\ fst (VolMem.vs_write_obj hb h s t v addr) = h /\
    VolMem.gm_res (VolMem.vs_read_obj hb h s t addr) = VolMem.Ok 0 /\
    (forall g off, Guest.reg_write g [] off = (g, inl 0) /\ Guest.reg_read g 0 off = inl []).
Proof. exact zero_len_region_lemma. Qed.

(* (1c) guest-memory level, for EVERY find_region implementation, every collection (also empty),
   every guest address (mapped, hole, one past, 0, 2^64-1): Ok, collection returned unchanged
   (this is what fix d46e2c0 established; before it the unmapped addresses gave InvalidGuestAddress) *)
Theorem C18_zero_len_guest : forall find md M addr,
  Guest.gm_write find md M [] addr = Val (M, inl 0) /\
  Guest.gm_read find md M [] addr = Val ([], inl 0) /\
  Guest.gm_write_slice find md M [] addr = Val (M, inl tt) /\
  Guest.gm_read_slice find md M [] addr = Val ([], inl tt) /\
  Guest.gm_write_obj find md M [] addr = Val (M, inl tt) /\
  Guest.gm_read_obj find md M 0 addr = Val (inl []).
Proof. exact zero_len_guest_lemma. Qed.

Theorem C18_zero_len_guest_marks : forall hm rs addr,
  Dirty.run_gop hm rs (Dirty.GWrite 0 addr) = Dirty.done 0 [] /\
  Dirty.run_gop hm rs (Dirty.GWriteSlice 0 addr) = Dirty.done 0 [] /\
  Dirty.run_gop hm rs (Dirty.GRead 0 addr) = Dirty.done 0 [].
Proof. exact zero_len_guest_marks_lemma. Qed.

(* (2a) copies of zero-sized elements ([u8;0], [u64;0]: size_of = 0), both build profiles, every
   slice / array (any length, any address), every buffer: no panic (no division by size_of, no
   offset_from - fixes 11fc27a, 9c780d8), nothing moved, the count is buf.len() resp.
   min(buf.len(), array length); a store through a reference to a zero-sized object writes nothing *)
Theorem C18_zst_copy_noop : forall m h t buf, VolMem.ty_size t = 0 ->
  (forall s, VolMem.vs_copy_to m h s t buf = Val (buf, VolMem.len buf) /\ VolMem.vs_copy_from m h s t buf = Val h) /\
  (forall a, (exists b', VolMem.va_copy_to m h a t buf = Val (b', N.min (VolMem.len buf) (VolMem.va_nelem a))) /\
             VolMem.va_copy_from m h a t buf = Val h) /\
  (forall a v, VolMem.vr_store h a t v = h).
Proof. exact zst_copy_noop_lemma. Qed.

(* arrays of n = 0 elements of ANY element size *)
Theorem C18_empty_array_copy_noop : forall m h p t buf,
  VolMem.va_copy_to m h {| VolMem.va_addr := p; VolMem.va_nelem := 0 |} t buf = Val (buf, 0) /\
  VolMem.va_copy_from m h {| VolMem.va_addr := p; VolMem.va_nelem := 0 |} t buf = Val h.
Proof. exact empty_array_copy_noop_lemma. Qed.

(* slice-to-slice copy with an empty source or destination moves nothing *)
Theorem C18_empty_slice_copy_noop : forall h s d, VolMem.vs_size s = 0 \/ VolMem.vs_size d = 0 ->
  VolMem.vs_copy_to_volatile_slice h s d = h.
Proof. exact vs_copy_vs_empty. Qed.

(* the marks of those copies: none for slice copies; for arrays of zero-sized / of no elements and
   for references to zero-sized objects every mark_dirty call has length 0, which the bitmap
   ignores whatever the (possibly unaligned) offset: all bitmaps unchanged *)
Theorem C18_zst_copy_marks : forall ri hm a rs k,
  (Dirty.a_kind a = Dirty.KSlice ->
     Dirty.run_sop ri hm a (Dirty.OCopyFrom 0 k) = Dirty.done 0 [] /\ Dirty.run_sop ri hm a (Dirty.OCopyTo 0 k) = Dirty.done k []) /\
  (forall esz n o, Dirty.a_kind a = Dirty.KArr esz n -> Dirty.a_len a = n * esz -> esz = 0 \/ n = 0 ->
     o = Dirty.OArrCopyFrom k \/ o = Dirty.OArrCopyTo k ->
     Dirty.apply_effs rs (Dirty.o_effs (Dirty.run_sop ri hm a o)) = rs) /\
  (forall o, Dirty.a_kind a = Dirty.KRef -> Dirty.a_len a = 0 ->
     Dirty.apply_effs rs (Dirty.o_effs (Dirty.run_sop ri hm a o)) = rs).
Proof. exact zst_copy_marks_lemma. Qed.

(* (2b) zero-count stream transfers on a slice (hence on a region), all four forms, the six stream
   kinds (&[u8], Cursor, File / &mut [u8], Vec, File), both build profiles: Ok(0) / Ok(()) with
   stream and memory untouched at every offset <= len - in particular at every offset valid for a
   non-empty access; beyond the end an error (characterised, not judged) *)
Theorem C18_zero_count_stream_ok : forall (rd : bool) md sk self addr st m,
  st_wf st -> Io.vs_addr self + addr < W64 ->
  (addr <= Io.vs_len self ->
     s_upto rd md sk self addr st m 0 = Val ((st, m), Io.Ok 0) /\
     s_exact rd md sk self addr st m 0 = Val ((st, m), Io.Ok tt)) /\
  (Io.vs_len self < addr ->
     (exists e, s_upto rd md sk self addr st m 0 = Val ((st, m), Io.Err e)) /\
     (exists e, s_exact rd md sk self addr st m 0 = Val ((st, m), Io.Err e))).
Proof. exact zero_count_stream_slice_lemma. Qed.

(* guest-memory level: Ok(0) / Ok(()) exactly at the mapped addresses; at an unmapped address a
   zero-count stream transfer is InvalidGuestAddress (characterisation: the property only speaks
   about addresses valid for a non-empty access) *)
Theorem C18_zero_count_stream_guest : forall (rd : bool) md sk L addr st m,
  st_wf st -> Forall host_ok L ->
  ((exists r, In r L /\ IoGuest.contains r addr = true) ->
     g_upto rd md sk L addr st m 0 = Val ((st, m), IoGuest.GOk 0) /\
     IoGuest.gm_exact_of (g_upto rd md sk L addr st m 0) 0 = Val ((st, m), IoGuest.GOk tt)) /\
  ((forall r, In r L -> IoGuest.contains r addr = false) ->
     g_upto rd md sk L addr st m 0 = Val ((st, m), IoGuest.GErr IoGuest.GInvalidGuestAddress)).
Proof. exact zero_count_stream_guest_lemma. Qed.

(* (3) the abstract bitmap ignores a mark of length 0 at every offset and page size *)
Theorem C18_mark_zero_noop : forall ps d off v, Dirty.mark ps d off 0 v = d.
Proof. exact mark_zero. Qed.

(* the composed model against the executable checker, for EVERY well-formed case (wf_case: what the
   suite decoder accepts): every entry point (empty-buffer / zero-sized-object forms, the four
   zero-count stream forms with the six stream kinds, ZST element copies, arrays of zero-sized
   elements or of no elements, references to zero-sized objects, slice-to-slice copies with an empty
   side), every layer (slice, region, guest memory), every address, both build profiles: the model
   never panics, leaves memory, caller's buffer / stream and bitmaps untouched, and reports Ok
   (count 0 where the text states the count) wherever the property demands success.
   C18_model_ok_partial (the subset of entry points proved first) is kept; it is subsumed. *)
Theorem C18_model_ok : forall c, wf_case c = true -> ok_C18 c (run_C18 c) = true.
Proof. exact model_ok_lemma. Qed.

Theorem C18_model_no_marks : forall c, wf_case c = true -> o_dirty (run_C18 c) = [].
Proof. exact model_no_marks_lemma. Qed.

Theorem C18_model_ok_partial : forall c, wf_case c = true -> covered18 c = true -> ok_C18 c (run_C18 c) = true.
Proof. exact model_ok_partial_lemma. Qed.

Example C18_nonvacuous :
  (* an unaligned, in-range, zero-count stream read on a 64-byte slice tracked with 7-byte pages *)
  enc18_ok (run_C18 {| c_mode := Debug; c_layer := LSlice; c_op := ZReadFrom; c_ps := 7;
                        c_regs := [(4096, 64); (8192, 33)]; c_ri := 0; c_sub_off := 3; c_sub_len := 40;
                        c_addr := 5; c_esz := 0; c_n := 0; c_k := 4; c_sk := 0 |}) = true /\
  (* a guest-level empty write at 2^64-1 and a ZST array copy in a hole *)
  o_class (run_C18 {| c_mode := Debug; c_layer := LGuest; c_op := ZWrite; c_ps := 7;
                       c_regs := [(4096, 64); (8192, 33)]; c_ri := 0; c_sub_off := 0; c_sub_len := 0;
                       c_addr := W64 - 1; c_esz := 0; c_n := 0; c_k := 0; c_sk := 0 |}) = 0 /\
  o_class (run_C18 {| c_mode := Debug; c_layer := LGuest; c_op := ZArrCopyFrom; c_ps := 7;
                       c_regs := [(4096, 64); (8192, 33)]; c_ri := 0; c_sub_off := 0; c_sub_len := 0;
                       c_addr := 5000; c_esz := 0; c_n := 3; c_k := 2; c_sk := 0 |}) = 1.
Proof. vm_compute. repeat split. Qed.

Print Assumptions C18_zero_len_slice.
Print Assumptions C18_zero_len_slice_marks.
Print Assumptions C18_zero_len_region.
Print Assumptions C18_zero_len_guest.
Print Assumptions C18_zero_len_guest_marks.
Print Assumptions C18_zst_copy_noop.
Print Assumptions C18_empty_array_copy_noop.
Print Assumptions C18_empty_slice_copy_noop.
Print Assumptions C18_zst_copy_marks.
Print Assumptions C18_zero_count_stream_ok.
Print Assumptions C18_zero_count_stream_guest.
Print Assumptions C18_mark_zero_noop.
Print Assumptions C18_model_ok.
Print Assumptions C18_model_no_marks.
Print Assumptions C18_model_ok_partial.

(* ------------------------------------------------------------------------------------------------------------
   Xen flavour (feature `xen`): "... and on Xen regions mapped in advance and on demand".
   Model: Impl/Xen.v (the pointer-guard / on-demand window machinery of src/mmap/xen.rs, tied to /repo by the
   C17xen and C18xen correspondence runs) composed with the C18 model above (Suite/C18xen.v run_C18x).
   [zlen op]: op is one of the access operations of Impl/Xen.v that names no bytes (empty buffer, guard of an
   empty slice, zero-sized object, array of zero-sized / of no elements, zero-count stream transfer, slice copy
   of an empty slice); proofs in Proofs/C18xen.v. *)
From VM Require Import Impl.MmapBuild Impl.Xen Spec.C18xen Suite.C18xen Proofs.C18xen.
From VM Require Proofs.C17.

(* for EVERY zero-length operation on EVERY region - unix, foreign, grant mapped in advance, grant mapped on demand;
   any size, guest base, offset (page aligned or not, inside or outside the region), any device answers, both
   build profiles: the event log is EMPTY (no map ioctl, no mmap, no munmap, no unmap ioctl), the operation
   completes or is refused with Err - never a panic or a fault - and it completes (Ok) at every offset inside the
   region, its end included.  (Before fix 70c7c6a a zero-length guard of an on-demand region panicked: F6a.) *)
Theorem C18_xen_zero_len_noop : forall m o g op, zlen op = true ->
  fst (run_op m o g op) = [] /\
  (snd (run_op m o g op) = RDone None \/ snd (run_op m o g op) = RErr) /\
  (xr_size g < W64 -> zoff op <= xr_size g -> zcount op <= ISZ_MAX -> snd (run_op m o g op) = RDone None).
Proof. exact xen_zero_len_noop_lemma. Qed.

(* the composed model, every well-formed case of suite C18xen (every entry point, layer, container, address,
   region kind): the region is built, the device log of the call is empty, the device holds exactly the region's
   own grant afterwards (no window), and what is mapped is exactly the region's own mapping *)
Theorem C18x_model_quiet : forall c, wf18x c = true ->
  exists mo, run_C18x c = Some mo /\ ox_base mo = run_C18 (kx_base c) /\
    ox_evs mo = [] /\ ox_live mo = own_live c /\ ox_mapped mo = own_mapped c.
Proof. exact model_quiet_lemma. Qed.

(* the composed model against the executable checker ok_C18x.
   FULL statement:  forall c, wf18x c = true -> exists mo, run_C18x c = Some mo /\ ok_C18x c mo = true.
   Proved for the cases whose embedded C18 case is covered by C18_model_ok_partial ([covered18]); the Xen half of
   the verdict (C18x_model_quiet) holds for ALL well-formed cases, so the full statement follows as soon as the
   full C18_model_ok does. *)
Theorem C18x_model_ok_partial : forall c, wf18x c = true -> covered18 (kx_base c) = true ->
  exists mo, run_C18x c = Some mo /\ ok_C18x c mo = true.
Proof. exact model_ok_x_partial_lemma. Qed.

Example C18x_nonvacuous :
  (* a zero-count stream read at the UNALIGNED offset 4099 of an on-demand grant region, and a store through a
     reference to a zero-sized object at offset 5 of an advance-mapped grant region *)
  let c1 := {| kx_base := {| c_mode := Debug; c_layer := LRegion; c_op := ZReadFrom; c_ps := 4096;
                             c_regs := [(262144, 8292)]; c_ri := 0; c_sub_off := 0; c_sub_len := 8292;
                             c_addr := 4099; c_esz := 0; c_n := 0; c_k := 4; c_sk := 0 |};
               kx_rkind := 3; kx_page := 4096 |} in
  let c2 := {| kx_base := {| c_mode := Release; c_layer := LSlice; c_op := ZRefStore; c_ps := 4096;
                             c_regs := [(262144, 8292)]; c_ri := 0; c_sub_off := 3; c_sub_len := 100;
                             c_addr := 2; c_esz := 0; c_n := 0; c_k := 0; c_sk := 1 |};
               kx_rkind := 2; kx_page := 4096 |} in
  wf18x c1 = true /\ wf18x c2 = true /\
  (exists mo, run_C18x c1 = Some mo /\ ok_C18x c1 mo = true /\ ox_live mo = 0 /\ ox_mapped mo = 0) /\
  (exists mo, run_C18x c2 = Some mo /\ ok_C18x c2 mo = true /\ ox_live mo = 1 /\ ox_mapped mo = 12288) /\
  zlen (XReadFrom 4099 0 4) = true /\
  (* the same guard with ONE byte does map a window: the theorem is about length 0, not about a dead model *)
  fst (run_op Debug Proofs.C17.demo_os Proofs.C17.demo_region (XReadFrom 4099 1 4)) <> [].
Proof.
  cbv zeta. split; [vm_compute; reflexivity|]. split; [vm_compute; reflexivity|].
  split; [eexists; split; [vm_compute; reflexivity|]; repeat split; vm_compute; reflexivity|].
  split; [eexists; split; [vm_compute; reflexivity|]; repeat split; vm_compute; reflexivity|].
  split; [reflexivity|]. vm_compute. discriminate.
Qed.

Print Assumptions C18_xen_zero_len_noop.
Print Assumptions C18x_model_quiet.
Print Assumptions C18x_model_ok_partial.

(* zero-sized elements in HUGE numbers (suite C18huge): the model of the zero-sized branches of
   VolatileSlice::copy_to / copy_from - answer buf.len() / do nothing, for every k below 2^64 - meets the
   checker (success, the count, nothing touched) *)
Theorem C18huge_model_ok : forall op k, ok_C18huge op k (run_C18huge op k) = true.
Proof. exact C18huge_model_ok_lemma. Qed.
Print Assumptions C18huge_model_ok.

(* the ARRAY forms on zero-sized element types (suite C18arr): VolatileArrayRef::<Z>::{copy_to_volatile_slice, copy_to,
   copy_from, store, load, ref_at(i).to_slice(), to_slice()} for Z = [u8;0] | [u64;0] | [u128;0] - the Impl/Dirty.v
   functions at element size 0 meet the checker written from the property text for EVERY page size, region size, offset,
   element count 0 .. usize::MAX, index and buffer length: no panic class, no byte written, no page marked, and Ok whenever
   the array exists at an offset inside the region (and the destination slice of copy_to_volatile_slice exists) *)
Theorem C18arr_model_ok : forall ps size off n zsel op i k,
  wf_C18arr ps size off n zsel op i k = true ->
  let '(cl, cnt, ch, d) := run_C18arr ps size off n op i k in ok_C18arr size off n op i k cl ch d = true.
Proof. exact C18arr_model_ok_lemma. Qed.

Example C18arr_nonvacuous :
  wf_C18arr 4096 8292 4090 5 1 0 100 7 = true /\ run_C18arr 4096 8292 4090 5 0 100 7 = (0, 0, [], []) /\
  run_C18arr 4096 8292 4090 5 1 0 3 = (0, 3, [], []) /\ run_C18arr 4096 8292 4090 18446744073709551615 1 0 3 = (1, 0, [], []).
Proof. vm_compute. repeat split. Qed.

Print Assumptions C18arr_model_ok.
