(* C17 - property theorems (statements only). *)
From VM Require Import Prelude.MachInt Prelude.Outcome Impl.MmapBuild Impl.Xen Spec.C17 Suite.C17 Proofs.C17.

(* a pointer guard taken from a slice, a typed reference or an element array has as its length the
   number of bytes the accessor covers (both build profiles, every element size and count) *)
Theorem C17_guard_len_bytes : forall m a, acc_bytes a < W64 -> guard_len m a = Val (acc_bytes a).
Proof. exact guard_len_bytes_lemma. Qed.

Print Assumptions C17_guard_len_bytes.
