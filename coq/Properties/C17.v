(* C17 - property theorems.  Statements only: each is closed by [exact] of a lemma from
   Proofs/C17.v and followed by Print Assumptions.
   Partial claim: the theorems are about the transcription coq/Impl/Xen.v of the guards
   (src/volatile_memory.rs) and of the on-demand window machinery (src/mmap/xen.rs), with the device
   answers as inputs; a real Xen hypervisor is not reached (the harness emulates gntdev/privcmd). *)
From VM Require Import Prelude.MachInt Prelude.Outcome Impl.MmapBuild Impl.Xen Spec.C17 Suite.C17 Proofs.C17 Proofs.C17Hist Proofs.C17Chain.

(* the standard-build model satisfies the executable checker on every input *)
Theorem C17_model_ok : forall c, c_kind c < 3 -> ok_C17 c (run_C17 c) = true.
Proof. exact C17_model_ok_lemma. Qed.

(* the Xen model satisfies the executable history checker ok_C17x on EVERY history: any region kind
   (unix / foreign / grant mapped in advance / grant mapped on demand), any region size and guest base
   (page aligned, fewer than 2^32 pages, below 2^63), any page size, any list of operations of any
   length with any operands - completed, failing and panicking ones - in both build profiles; i.e.
   every touched range is covered by a window logged by the same operation, every window is released
   when the operation ends, nothing remains mapped at the end.  Only the two unguarded entry points of
   the known-finding candidate F6b (opcodes 9, 10) are excluded on on-demand regions, where the property
   is refuted (C17_unguarded_refuted). *)
Theorem C17x_model_ok : forall c ops,
  (cx_rkind c < 4 /\ 0 < cx_page c /\ cx_gbase c mod cx_page c = 0 /\
   cx_gbase c + cx_size c + cx_page c <= 4294967296 * cx_page c /\
   cx_gbase c + cx_size c + cx_page c < 9223372036854775808) ->
  xops_of (cx_ops c) = Some ops ->
  (cx_rkind c = 3 -> forall x, In x (cx_ops c) -> x_code x <> 9 /\ x_code x <> 10) ->
  ok_C17x c (run_C17x c ops) = true.
Proof. exact C17x_model_ok_lemma. Qed.

(* guard_len_bytes: a pointer guard taken from a slice, a typed reference or an element array has
   as its length the number of bytes the accessor covers - all three accessor kinds, every element
   size and count, both build profiles *)
Theorem C17_guard_len_bytes : forall m a, acc_bytes a < W64 -> guard_len m a = Val (acc_bytes a).
Proof. exact guard_len_bytes_lemma. Qed.

(* window_covers: the window MmapXenSlice::new_with requests for a guard of len bytes at offset off
   (any page size, any offset within or across pages, both build profiles) is made of whole pages,
   starts at the page of off, covers [off, off+len) and is at most one page longer than needed *)
Theorem C17_window_covers : forall m ps off len, 0 < ps -> off + len + ps < W64 ->
  exists page_base inpage wsize count msize,
    window_arith m ps off len = Val (page_base, inpage, wsize) /\
    pages m ps wsize = Val (count, msize) /\
    msize = ps * count /\ page_base mod ps = 0 /\ inpage < ps /\ off = page_base + inpage /\
    page_base <= off /\ off + len <= page_base + msize /\ page_base + msize < off + len + ps.
Proof. exact window_covers_lemma. Qed.

(* every guarded access operation (write, read, read_volatile_from, write_volatile_to - with a byte buffer and
   with a descriptor (File) as the other end -, read_exact_volatile_from / write_all_volatile_to with a descriptor, slice guard,
   slice copy_from/copy_to, typed store/load, array element store/load, array copy_from/copy_to) that completes on an on-demand region touched only bytes
   inside the window the same operation had mapped: whole pages, with the map ioctl for exactly
   (first grant, page count) and the mmap of exactly that many bytes at the index the device returned
   in the operation's own log *)
Theorem C17_access_inside_window : forall m o g op goff glen wr toff tlen l w,
  0 < os_page o -> xr_size g + os_page o < W64 ->
  xr_size g + os_page o <= 4294967296 * os_page o ->
  os_mmap_ok o = true ->
  op_plan m (xr_size g) op = Val (PGuard goff glen wr toff tlen) ->
  run_op m o g op = (l, RDone (Some w)) ->
  w_page_base w mod os_page o = 0 /\ w_msize w = os_page o * w_count w /\
  w_page_base w <= toff /\ toff + tlen <= w_page_base w + w_msize w /\
  In (EvIoctlMap (w_gref w) (w_count w) (w_index w) true) l /\
  (exists prot, In (EvMmap (w_msize w) prot (xr_flags g) true (w_index w) true) l).
Proof. exact access_inside_window_lemma. Qed.

(* descriptor streams: the stream entry points whose other end is a File (the bytes move in a read(2)/write(2)
   system call made while the guard lives, io.rs:177-227) take exactly the windows of the buffer forms, on every
   region and in both profiles: read_volatile_from / write_volatile_to those of the &[u8] / Vec forms, the
   exact / all forms (file long enough, sink taking every write in full) one window over the whole slice *)
Theorem C17_fd_streams_same_windows : forall m o g off count flen,
  run_op m o g (XReadFromFd off count flen) = run_op m o g (XReadFrom off count flen) /\
  run_op m o g (XWriteToFd off count) = run_op m o g (XWriteTo off count) /\
  run_op m o g (XReadExactFromFd off count) = run_op m o g (XSliceGuard off count true) /\
  run_op m o g (XWriteAllToFd off count) = run_op m o g (XSliceGuard off count false).
Proof. exact fd_streams_same_windows_lemma. Qed.

(* windows_released: after ANY sequence of operations on any region - completed, failed and
   panicking ones alike, any device answers - as long as the kernel grants the window mmaps, no
   grant window remains in the device and no window remains mapped (live set = the set before) *)
Theorem C17_windows_released : forall m o g ops st, os_mmap_ok o = true ->
  live_after st (hist_events (run_hist m o g ops)) = st /\
  mm_balance (hist_events (run_hist m o g ops)) = 0%Z.
Proof. exact windows_released_lemma. Qed.

(* the hypothesis of C17_windows_released is needed: if the kernel refuses the mmap of a window after
   the device accepted the map request, the guard panics (unwrap) and the grant mapping stays *)
Theorem C17_window_leak_on_mmap_failure_witness :
  let o := {| os_page := 4096; os_filesize := 0; os_mmap_ok := false; os_ioctl_ok := true |} in
  live_after [] (fst (run_op Debug o demo_region (XRefLoad 8 4))) = [(262144, 1)] /\
  snd (run_op Debug o demo_region (XRefLoad 8 4)) = RPanic.
Proof. exact window_leak_on_mmap_failure_lemma. Qed.

(* F6a - repaired (fix: commit in /repo, see known_findings.txt): before the fix a zero-length guard at a
   page-aligned offset of an on-demand region asked the device for 0 grants, was refused, and the Err was
   unwrapped (panic).  Now an empty range maps nothing and completes, at every offset of every region. *)
Theorem C17_zero_len_guard_noop : forall m o g off wr, guarded m o g off 0 wr = ([], Val None).
Proof. exact zero_len_guard_noop_lemma. Qed.

(* F6b (candidate finding, confirmed by suite C17xenfind): get_atomic_ref (Bytes::load/store) and
   copy_to_volatile_slice dereference the null-based address of an on-demand region without a guard:
   nothing is mapped for the access (empty log) and it faults.  "Every access takes place inside a
   temporary mapping" is REFUTED for these entry points. *)
Theorem C17_unguarded_refuted :
  run_op Debug demo_os demo_region (XAtomicLoad 8 4) = ([], RFault) /\
  run_op Debug demo_os demo_region (XCopyToVS 16 32) = ([], RFault).
Proof. exact unguarded_refuted_lemma. Qed.

(* non-vacuity: an 8-byte write at offset 4090 of an on-demand region maps the 2 pages from its page
   to the end of the region, and unmaps them *)
Example C17_nonvacuous :
  fst (run_op Debug demo_os demo_region (XWrite 4090 8)) =
    [EvIoctlMap 64 2 262144 true; EvMmap 8192 2 16385 true 262144 true; EvMunmap 8192; EvIoctlUnmap 262144 2] /\
  fst (run_op Debug demo_os demo_region (XReadExactFromFd 4090 8)) =
    [EvIoctlMap 64 2 262144 true; EvMmap 8192 2 16385 true 262144 true; EvMunmap 8192; EvIoctlUnmap 262144 2] /\
  fst (run_op Debug demo_os demo_region (XWriteToFd 100 8)) =
    [EvIoctlMap 64 1 262144 true; EvMmap 4096 1 16385 true 262144 true; EvMunmap 4096; EvIoctlUnmap 262144 1] /\
  on_demand demo_region = true /\ guard_len Debug (AArray 4 4) = Val 16.
Proof. vm_compute. repeat split. Qed.

(* derivation chains (suite C17xenchain).  Every accessor carries one bit: the region's mapping handle was passed on to it.
   For EVERY chain of derivations, of any length, over all accessor-producing methods of volatile_memory.rs (subslice, offset,
   both halves of split_at, get_slice, get_ref, get_array_ref, as_volatile_slice, From<VolatileSlice> for VolatileArrayRef<u8>,
   Clone/Copy, to_slice, ref_at), from any root the region hands out: the final accessor carries the handle iff the region is
   mapped on demand (induction over the chain; each step transcribes which argument the constructor call passes as `mmap`) *)
Theorem C17_handle_propagates : forall m g r l a, d_chain m g r l = Val (Some a) -> acc_h a = on_demand g.
Proof. exact handle_propagates_lemma. Qed.

(* therefore the access that ends a chain on an on-demand region is never the bare dereference of the stored address
   (XCopyToVS, the shape of finding F6b): it is a guard over exactly the bytes of the final accessor - an operation
   XSliceGuard, for which C17_access_inside_window / C17_windows_released / C17x_model_ok hold - or the chain was refused *)
Theorem C17_chain_guarded : forall m g r l f op, on_demand g = true -> chain_op m g r l f = Val op ->
  op = err_xop g \/ exists a goff glen w, d_chain m g r l = Val (Some a) /\
                       fin_plan m a f = Val (Some (goff, glen, w)) /\ op = XSliceGuard goff glen w.
Proof. exact chain_guarded_lemma. Qed.

(* the pages a window names (suites C17xen / C17xenchain judge with ok_C17xn = ok_C17x + every map request of the log is
   followed by its reference list (domid of the region, first + i) for i < count).  The model - the history model with
   the list GntDevMapGrantRef::new builds inserted after every map request - satisfies it on EVERY history *)
Theorem C17xn_model_ok : forall c ops,
  (cx_rkind c < 4 /\ 0 < cx_page c /\ cx_gbase c mod cx_page c = 0 /\
   cx_gbase c + cx_size c + cx_page c <= 4294967296 * cx_page c /\
   cx_gbase c + cx_size c + cx_page c < 9223372036854775808) ->
  xops_of (cx_ops c) = Some ops ->
  (cx_rkind c = 3 -> forall x, In x (cx_ops c) -> x_code x <> 9 /\ x_code x <> 10) ->
  ok_C17xn c (run_C17xn c ops) = true.
Proof. exact C17xn_model_ok_lemma. Qed.

(* the loop of GntDevMapGrantRef::new (xen.rs:732-745, transcribed with its u32 arithmetic): for a request that stays below
   2^32 it names page i of the window as (domid, base + i), for every count, in both build profiles *)
Theorem C17_grant_refs_loop : forall m domid base count, base + count <= 4294967296 ->
  gnt_refs_new m domid base 0 (N.to_nat count) = Val (named_refs domid base count).
Proof. exact grant_refs_loop_lemma. Qed.

(* every other method of the `Bytes` trait at region level and at guest-memory level (wire opcodes 19-34 of suite C17xen,
   Suite.C17 norm_op): each is judged and modelled as the basic operation whose window it takes; where the slice / object /
   exact form (or the guest level at the very end of the region) answers Err for what the basic form completes, the
   model's observation is that of the basic operation with the result Err - and still satisfies the checker, for every
   history and every choice of such operations *)
Theorem C17xb_model_ok : forall c ops fl,
  (cx_rkind c < 4 /\ 0 < cx_page c /\ cx_gbase c mod cx_page c = 0 /\
   cx_gbase c + cx_size c + cx_page c <= 4294967296 * cx_page c /\
   cx_gbase c + cx_size c + cx_page c < 9223372036854775808) ->
  xops_of (cx_ops c) = Some ops ->
  (cx_rkind c = 3 -> forall x, In x (cx_ops c) -> x_code x <> 9 /\ x_code x <> 10) ->
  ok_C17xn c (force_err_obs fl (run_C17xn c ops)) = true.
Proof. exact C17xb_model_ok_lemma. Qed.

(* suite C17xenchain: the chain model satisfies the chain checker ok_C17c on ALL chains - any region kind, size and guest
   base (the bounds of C17x_model_ok), any root, any list of derivations of any length with any operands (accepted, refused
   and panicking ones), any final access, both build profiles.  "Model geometry = spec geometry": by induction over the
   chain the transcribed derivations designate exactly the bytes the documented meaning of the methods gives (and stay
   inside the region), a panicking derivation is one the documentation leaves undefined; with C17_handle_propagates the
   final access is then the guarded one-operation history of C17xn_model_ok *)
Theorem C17c_model_ok : forall c r l f,
  (cc_rkind c < 4 /\ 0 < cc_page c /\ cc_gbase c mod cc_page c = 0 /\
   cc_gbase c + cc_size c + cc_page c <= 4294967296 * cc_page c /\
   cc_gbase c + cc_size c + cc_page c < 9223372036854775808) ->
  root_of (cc_root c) = Some r -> map_opt step_of (cc_steps c) = Some l -> final_of (cc_final c) = Some f ->
  ok_C17c c (run_C17c c r l f) = true.
Proof. exact C17c_model_ok_lemma. Qed.

Print Assumptions C17_model_ok.
Print Assumptions C17x_model_ok.
Print Assumptions C17_guard_len_bytes.
Print Assumptions C17_window_covers.
Print Assumptions C17_access_inside_window.
Print Assumptions C17_fd_streams_same_windows.
Print Assumptions C17_windows_released.
Print Assumptions C17_window_leak_on_mmap_failure_witness.
Print Assumptions C17_zero_len_guard_noop.
Print Assumptions C17_unguarded_refuted.
Print Assumptions C17_handle_propagates.
Print Assumptions C17_chain_guarded.
Print Assumptions C17xn_model_ok.
Print Assumptions C17_grant_refs_loop.
Print Assumptions C17xb_model_ok.
Print Assumptions C17c_model_ok.
