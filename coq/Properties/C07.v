(* C07 - guest-controlled addresses, offsets, lengths and counts can never crash the monitor.
   Statements only: each is closed by [exact] of a lemma of Proofs/C07*.v (or of the package that
   already proved it), followed by Print Assumptions.

   Reading guide.  Every model function is a transcription of the Rust code in the outcome monad
   (Val v | Panic site | OutOfFuel) with the build profile as a parameter (Debug = overflow checks
   and debug assertions on, Release = off).  "exists v, f ... = Val v" therefore says: the call
   returns - no panic, no arithmetic overflow in a checked build, no loop that outlives its fuel -
   and the fuel named in the statement is the bound on the number of iterations.  All numeric
   arguments range over the whole of [0, 2^64).
     Volatile.derive m p op     one accessor-producing request op (get_slice, subslice, offset, split_at,
                                get_ref, get_array_ref, get_atomic_ref, aligned_as_*, ref_at, to_slice,
                                region get_slice / get_host_address ...) on accessor p
     Spec.C01.acc_valid p       p is an address range below 2^64 no longer than isize::MAX (the contract
                                of the unsafe constructors / what mmap returns)
     Guest.*                    GuestMemoryRegion / GuestMemory provided methods and Bytes<GuestAddress>, for
                                ANY implementor: arbitrary find_region meeting its contract (find_ok) under an
                                invariant implying wf_layout_gen (regions non-empty, pairwise disjoint, inside
                                [0, 2^64]: a region may sit at 0 and may END EXACTLY AT 2^64; any order)
     Bitmap.*_o                 AtomicBitmap / BaseSlice operations; bm_inv = what AtomicBitmap::new builds
     Suite.C14.exec14           the four stream transfers on slice / region / guest memory with a scripted stream *)
From VM Require Import Prelude.MachInt Prelude.Outcome.
From VM Require Impl.Address Impl.Volatile Impl.VolMem Impl.Guest Impl.Bitmap Impl.Io Impl.IoGuest Impl.IoEnd.
From VM Require Spec.C01 Spec.C14 Suite.C14 Proofs.C02 Proofs.C14.
From VM Require Proofs.C07Geom Proofs.C07Data Proofs.C07Bitmap Proofs.C07Guest Proofs.C07Own Proofs.C07Copy Proofs.C13.
From VM Require Import Spec.C07 Suite.C07 Proofs.C07.

(* the assembled model - one call of any of the 79 entry points on any of the 10 target kinds (the 10th: a ByteValued
   type with from_slice / from_mut_slice on a buffer of ANY length and alignment, zeroed, as_slice, as_mut_slice)
   - formerly 74 entry points on 9 target kinds (the 8th: a bitmap
   created and then ENLARGED by any k with byte_size + k < 2^64; the 9th: the VolatileSlice ByteValued::as_bytes()
   gives over an object; entry points 61-64: the four stream transfers with the crate's OWN adapters - &[u8],
   &mut [u8], Vec<u8>, Cursor<_> at ANY position, File - as the stream; 65-69 the typed bulk copies incl. element
   sizes 3 and 16; 70-76 nested BaseSlice views and the Option<B> bitmap), any
   well-formed layout / container / bitmap of ANY size, any arguments, both build profiles -
   satisfies the checker: every call returns a value or an error value; the only panics are the
   documented ones (array index >= element count; checked_align_up with a non power of two) *)
Theorem C07_model_ok : forall c, wf07 c = true -> ok_C07 c (run_C07 c) = true.
Proof. exact C07_model_ok_lemma. Qed.

(* what an accepting verdict of the checker means, for ANY observation *)
Theorem C07_checker_reading : forall c o, ok_C07 c o = true <-> o = 0 \/ o = 1 \/ (o = 2 /\ documented c = true).
Proof. exact ok_C07_reading. Qed.

(* ---------------------------------------------------------------- slices, references, arrays, regions *)
(* every accessor-producing request on a valid accessor returns, whatever offset / count it names ... *)
Theorem C07_accessor_requests_total : forall m p op, Spec.C01.acc_valid p -> Spec.C01.op_wf op ->
  ~ C07Geom.documented_req p op -> exists r, Volatile.derive m p op = Val r.
Proof. exact C07Geom.derive_total_lemma. Qed.

(* ... with the same answer with and without overflow checks ... *)
Theorem C07_accessor_requests_mode_indep : forall p op, Spec.C01.acc_valid p -> Spec.C01.op_wf op ->
  Volatile.derive Debug p op = Volatile.derive Release p op.
Proof. exact C07Geom.derive_mode_indep_lemma. Qed.

(* ... and the ONLY panic is the documented one: ref_at (hence load / store) of an element array
   with index >= element count; nothing ever runs out of fuel *)
Theorem C07_panic_only_if_documented : forall m p op, Spec.C01.acc_valid p -> Spec.C01.op_wf op ->
  ((exists s, Volatile.derive m p op = Panic s) <->
   (exists a i, p = Volatile.AArr a /\ op = Volatile.DRefAt i /\ Volatile.va_nelem a <= i)) /\
  Volatile.derive m p op <> OutOfFuel.
Proof. exact C07Geom.derive_panic_iff_lemma. Qed.

(* chains of requests of ANY length (each continuing from the accessor just obtained): the same in
   both profiles; a value, or Panic - and then some request of the chain indexed an array accessor,
   obtained by the requests before it, out of range *)
Theorem C07_accessor_chains : forall ops p, Spec.C01.acc_valid p -> Forall Spec.C01.op_wf ops ->
  exists x, (forall m, Volatile.derive_chain m p ops = x) /\
    ((exists r, x = Val r) \/
     (x = Panic 1135 /\ exists pre a i post, ops = pre ++ Volatile.DRefAt i :: post /\
        (forall m, Volatile.derive_chain m p pre = Val (Volatile.Ok (Volatile.AArr a))) /\ Volatile.va_nelem a <= i)).
Proof. exact C07Geom.chain_closed_lemma. Qed.

(* Bytes<usize>::store / load of an integer of 2^k bytes at ANY address of any container: return, the
   same in both profiles (write / read / *_slice / *_obj are transcribed as plain total functions:
   those paths contain no panic site and no loop) *)
Theorem C07_container_store_total : forall hb h s t v addr k, VolMem.ty_size t = 2 ^ k ->
  exists r, forall m, VolMem.vs_store m hb h s t v addr = Val r.
Proof. exact C07Data.vs_store_closed_lemma. Qed.
Theorem C07_container_load_total : forall hb h s t addr k, VolMem.ty_size t = 2 ^ k ->
  exists r, forall m, VolMem.vs_load m hb h s t addr = Val r.
Proof. exact C07Data.vs_load_closed_lemma. Qed.
Theorem C07_container_typed_total : forall s size off n,
  (exists r, VolMem.vs_get_ref s size off = Val r) /\ (exists r, VolMem.vs_get_array_ref s size off n = Val r).
Proof. exact C07Data.typed_total_lemma. Qed.
Theorem C07_array_index_panic_iff : forall m a size index, VolMem.va_nelem a * size < W64 ->
  (index < VolMem.va_nelem a -> VolMem.va_ref_at m a size index = Val (VolMem.va_addr a + size * index)) /\
  (VolMem.va_nelem a <= index -> VolMem.va_ref_at m a size index = Panic 1135).
Proof. exact C07Data.va_ref_at_panic_iff_lemma. Qed.

(* ---------------------------------------------------------------- guest memory *)
(* try_access: for every implementor, every layout (regions at 0, ending at 2^64, any number), every
   count and start address, every callback that returns and never answers short - INCLUDING one that
   over-reports - the loop returns within (regions + 1) iterations in both profiles: neither
   `region.len() - start` nor `count - total` underflows *)
Theorem C07_try_access_total : forall (find : Guest.layout -> N -> option nat) (inv : Guest.layout -> Prop),
  (forall L, inv L -> Proofs.C02.wf_layout_gen L) ->
  (forall L a, inv L -> a < W64 -> Proofs.C02.find_ok L a (find L a)) ->
  forall (St : Type) L count (f : St -> N -> N -> N -> nat -> outcome (St * Guest.res N)),
  inv L -> C07Guest.never_short f ->
  forall m s cur total, cur < W64 -> total <= count ->
  exists v, Guest.try_access find m L count f (S (length L)) s cur total = Val v.
Proof. exact C07Guest.try_access_total_lemma. Qed.

(* whatever the callback and the layout: a run that returns with overflow checks returns the same without *)
Theorem C07_try_access_profile_indep : forall (find : Guest.layout -> N -> option nat) (St : Type) L count
  (f : St -> N -> N -> N -> nat -> outcome (St * Guest.res N)) fuel s cur total v,
  Guest.try_access find Debug L count f fuel s cur total = Val v ->
  Guest.try_access find Release L count f fuel s cur total = Val v.
Proof. exact C07Guest.try_access_profile_lemma. Qed.

(* all address queries return, for every address and length (incl. length 0 and base + length
   crossing 2^64); check_range and last_addr give the same answer in both profiles *)
Theorem C07_guest_queries_total : forall (find : Guest.layout -> N -> option nat) (inv : Guest.layout -> Prop),
  (forall L, inv L -> Proofs.C02.wf_layout_gen L) ->
  (forall L a, inv L -> a < W64 -> Proofs.C02.find_ok L a (find L a)) ->
  forall L a n, inv L -> a < W64 -> n < W64 ->
  (exists v, Guest.gm_to_region_addr find L a = Val v) /\
  (exists v, Guest.gm_get_host_address find L a = Val v) /\
  (exists v, Guest.gm_get_slice find L a n = Val v) /\
  (exists b, forall m, Guest.gm_check_range find m L a n = Val b) /\
  (exists v, forall m, Guest.gm_last_addr m L = Val v).
Proof. exact C07Guest.guest_queries_total_lemma. Qed.

Theorem C07_region_last_addr : forall m st ln, 0 < ln -> st + ln <= W64 ->
  Guest.r_last_addr m st ln = Val (st + ln - 1).
Proof. exact Proofs.C02.r_last_addr_val. Qed.

(* Bytes<GuestAddress>: every accessor returns for every address and every buffer (fuel regions + 1) *)
Theorem C07_guest_bytes_total : forall (find : Guest.layout -> N -> option nat) (inv : Guest.layout -> Prop),
  (forall L, inv L -> Proofs.C02.wf_layout_gen L) ->
  (forall L a, inv L -> a < W64 -> Proofs.C02.find_ok L a (find L a)) ->
  forall m M buf addr, inv (Guest.shape M) -> Guest.lenN buf < W64 -> addr < W64 ->
  (exists v, Guest.gm_write find m M buf addr = Val v) /\ (exists v, Guest.gm_read find m M buf addr = Val v) /\
  (exists v, Guest.gm_write_slice find m M buf addr = Val v) /\ (exists v, Guest.gm_read_slice find m M buf addr = Val v) /\
  (exists v, Guest.gm_write_obj find m M buf addr = Val v) /\
  (forall sz, sz < W64 -> exists v, Guest.gm_read_obj find m M sz addr = Val v) /\
  (exists v, Guest.gm_store find M buf addr = Val v) /\
  (forall sz, exists v, Guest.gm_load find M sz addr = Val v).
Proof. exact C07Guest.guest_bytes_total_lemma. Qed.

Theorem C07_guest_bytes_mode_indep : forall (find : Guest.layout -> N -> option nat) (inv : Guest.layout -> Prop),
  (forall L, inv L -> Proofs.C02.wf_layout_gen L) ->
  (forall L a, inv L -> a < W64 -> Proofs.C02.find_ok L a (find L a)) ->
  forall M buf addr, inv (Guest.shape M) -> Guest.lenN buf < W64 -> addr < W64 ->
  Guest.gm_write find Debug M buf addr = Guest.gm_write find Release M buf addr /\
  Guest.gm_read find Debug M buf addr = Guest.gm_read find Release M buf addr /\
  Guest.gm_write_slice find Debug M buf addr = Guest.gm_write_slice find Release M buf addr /\
  Guest.gm_read_slice find Debug M buf addr = Guest.gm_read_slice find Release M buf addr.
Proof. exact C07Guest.guest_bytes_mode_indep_lemma. Qed.

Theorem C07_guest_streams_total : forall (find : Guest.layout -> N -> option nat) (inv : Guest.layout -> Prop),
  (forall L, inv L -> Proofs.C02.wf_layout_gen L) ->
  (forall L a, inv L -> a < W64 -> Proofs.C02.find_ok L a (find L a)) ->
  forall m M addr chunk src dst count,
  inv (Guest.shape M) -> count < W64 -> addr < W64 -> Guest.lenN src < W64 -> 0 < chunk ->
  (exists v, Guest.gm_read_volatile_from find m M addr chunk src count = Val v) /\
  (exists v, Guest.gm_read_exact_volatile_from find m M addr chunk src count = Val v) /\
  (exists v, Guest.gm_write_volatile_to find m M addr dst count = Val v) /\
  (exists v, Guest.gm_write_all_volatile_to find m M addr dst count = Val v).
Proof. exact C07Guest.guest_streams_total_lemma. Qed.

(* the layouts the suite runs on are legitimate: the boolean layout test implies wf_layout_gen; with
   top = 2^64 a region may end exactly at the top of the address space *)
Theorem C07_layout_test_sound : forall top L, top <= W64 -> wf_layb top L = true -> Proofs.C02.wf_layout_gen L.
Proof. exact wf_layb_sound. Qed.

(* ---------------------------------------------------------------- stream helpers *)
(* retry_eintr!, the exact loops and try_access terminate on every script of per-call behaviours
   (Full | Short k | Zero | Eintr | HardErr, any length) for every start address and count, on a slice,
   a region and guest memory: fuel length(script) + 2 (proved by the C14 package; restated) *)
Theorem C07_stream_transfers_total : forall c, Suite.C14.wf14 c = true -> exists s m rc, Suite.C14.exec14 c = Val ((s, m), rc).
Proof. exact Proofs.C14.terminates_lemma. Qed.

(* ---------------------------------------------------------------- bitmaps *)
(* the loop of set_reset_addr_range stops after at most pages + 2 loop heads for EVERY first and last
   page number: the bound comes from the `break`, not from the guest-chosen range *)
Theorem C07_bitmap_range_loop_bound : forall b first last set, Bitmap.bm_inv b ->
  exists b', Bitmap.range_loop (S (S (N.to_nat (Bitmap.bm_size b)))) first last b set = Val b' /\ Bitmap.bm_inv b' /\
             Bitmap.bm_size b' = Bitmap.bm_size b.
Proof. exact C07Bitmap.range_loop_bound_lemma. Qed.

Theorem C07_bitmap_range_ops_total : forall b a l, Bitmap.bm_inv b -> a < W64 ->
  (exists b', Bitmap.bm_set_addr_range_o b a l = Val b' /\ Bitmap.bm_inv b') /\
  (exists b', Bitmap.bm_reset_addr_range_o b a l = Val b' /\ Bitmap.bm_inv b') /\
  (exists b', Bitmap.bm_mark_dirty_o b a l = Val b' /\ Bitmap.bm_inv b').
Proof. exact C07Bitmap.range_ops_total_lemma. Qed.

Theorem C07_bitmap_bit_ops_total : forall b i, Bitmap.bm_inv b ->
  (exists b', Bitmap.bm_set_bit_o b i = Val b' /\ Bitmap.bm_inv b') /\
  (exists b', Bitmap.bm_reset_bit_o b i = Val b' /\ Bitmap.bm_inv b') /\
  (exists v, Bitmap.bm_is_bit_set_o b i = Val v) /\ (exists v, Bitmap.bm_is_addr_set_o b i = Val v) /\
  (exists v, Bitmap.bm_dirty_at_o b i = Val v).
Proof. exact C07Bitmap.bit_ops_total_lemma. Qed.

(* through BaseSlice views: ANY base offset, offset and length (the sums wrap by design) *)
Theorem C07_bitmap_slice_views_total : forall b base off off2 len, Bitmap.bm_inv b ->
  (exists b', Bitmap.bs_mark_dirty_o b base off len = Val b' /\ Bitmap.bm_inv b') /\
  (exists v, Bitmap.bs_dirty_at_o b base off = Val v) /\
  (exists b', Bitmap.bs_mark_dirty_o b (Bitmap.bs_slice_at base off) off2 len = Val b' /\ Bitmap.bm_inv b') /\
  (exists v, Bitmap.bs_dirty_at_o b (Bitmap.bs_slice_at base off) off2 = Val v).
Proof. exact C07Bitmap.slice_ops_total_lemma. Qed.

Theorem C07_bitmap_new_inv : forall bytes ps, 0 < ps -> bytes < W64 -> Bitmap.bm_inv (Bitmap.bm_new bytes ps).
Proof. exact C07Bitmap.new_inv_lemma. Qed.

(* enlarge keeps the representation invariant - word vector sized from the ROUNDED-UP page count - from any
   bitmap that has it (so after any number of enlarges) whenever the sum of the byte sizes fits usize; with the
   four totality theorems above (stated for every bitmap with bm_inv): on an enlarged bitmap every range, bit,
   query and slice-view entry point returns for ALL usize arguments - no out-of-bounds index into the Vec *)
Theorem C07_bitmap_enlarge_inv : forall m b add, Bitmap.bm_inv b -> Bitmap.bm_byte_size b + add < W64 ->
  exists b', Bitmap.bm_enlarge_o m b add = Val b' /\ Bitmap.bm_inv b' /\
             Bitmap.bm_size b' = div_ceil (Bitmap.bm_byte_size b + add) (Bitmap.bm_ps b) /\
             N.of_nat (length (Bitmap.bm_words b')) = div_ceil (Bitmap.bm_size b') 64.
Proof. exact C07Bitmap.enlarge_inv_lemma. Qed.

(* the target kind of the suite: AtomicBitmap::new(bytes, ps) then enlarge(add) *)
Theorem C07_bitmap_new_enlarge_inv : forall m bytes ps add, 0 < ps -> bytes + add < W64 ->
  exists b', Bitmap.bm_enlarge_o m (Bitmap.bm_new bytes ps) add = Val b' /\ Bitmap.bm_inv b' /\
             Bitmap.bm_size b' = div_ceil (bytes + add) ps.
Proof. exact C07Bitmap.new_enlarge_inv_lemma. Qed.

(* ... hence ONE operation of any kind on it returns (class 0), whatever arguments it is given *)
Theorem C07_bitmap_enlarged_ops_total : forall m bs ps k op a b c,
  (50 <= op <= 58 \/ 70 <= op <= 76) -> 0 < ps -> bs + k < W64 -> a < W64 -> bitmap_enl_cls m bs ps k op a b c <= 1.
Proof. exact bitmap_enl_cls_le2. Qed.

(* views: BaseSlices nested to ANY depth (chain = the slice_at offsets, any usize values: they add up with
   wrapping_add) over the bitmap itself, over Some(bitmap), None and (): mark_dirty / dirty_at return *)
Theorem C07_bitmap_views_total : forall b r chain off len, Bitmap.bm_inv b -> off < W64 ->
  (exists b', Bitmap.view_mark_o r chain b off len = Val b') /\ (exists v, Bitmap.view_dirty_at_o r chain b off = Val v).
Proof. exact bitmap_views_total_lemma. Qed.


(* ---------------------------------------------------------------- stream entry points with the crate's own adapters *)
(* read_volatile_from / read_exact_volatile_from / write_volatile_to / write_all_volatile_to on a VolatileSlice, a
   GuestRegionMmap and a GuestMemoryMmap (ANY list of regions - no assumption on it), with each adapter of src/io.rs
   as the stream (IoEnd.own_exec dispatches to the adapter's OWN exact method where it overrides the default loop),
   every start address and count, every endpoint content and position: the call returns within
   (bytes of the target) + 2 units of fuel, in both build profiles.  own_P: a Cursor's position and data length are
   u64 values (ANY position - also past the end); a Vec<u8> and the target fit usize together; nothing else *)
Theorem C07_own_streams_total : forall md fuel t x s m addr count, count < W64 -> C07Own.own_P x (IoEnd.tbytes t) s ->
  (N.to_nat (IoEnd.tbytes t) < fuel)%nat -> exists v, IoEnd.own_exec md fuel t x s m addr count = Val v.
Proof. exact C07Own.own_exec_total_lemma. Qed.

(* a Cursor at or past its end (any position up to u64::MAX): a read yields 0 bytes, an exact read of a non-empty
   buffer UnexpectedEof, a write accepts 0 bytes (hence write_all: WriteZero); state and memory untouched *)
Theorem C07_cursor_past_end : forall md st m v, Proofs.C13.cur_ok st -> C1314List.nlen (Io.s_data st) <= Io.s_pos st ->
  Io.cursor_read_volatile md st m v = Val ((st, m), Io.Ok 0) /\
  (Io.cursor_read_exact_volatile md st m v =
     if 0 <? Io.vs_len v then Val ((st, m), Io.Err (Io.VIo Io.EUnexpectedEof)) else Val ((st, m), Io.Ok tt)) /\
  Io.cursor_write_volatile md st m v = Val ((st, m), Io.Ok 0).
Proof. exact C07Own.cursor_past_end_lemma. Qed.

(* what the proofs need of a stream, and that every adapter meets it: each call returns, keeps the endpoint's
   invariant, never reports EINTR, never claims more than the buffer holds; so do the exact methods *)
Theorem C07_own_endpoints_good : forall md fuel,
  (forall k, C07Own.good_call (C07Own.rd_P k) (IoEnd.rd_call md k)) /\
  (forall k, C07Own.good_call (C07Own.wr_P k) (IoEnd.wr_call md k)) /\
  (forall k, C07Own.good_exact (C07Own.rd_P k) fuel (IoEnd.rd_exact md fuel k)) /\
  (forall k, C07Own.good_exact (C07Own.wr_P k) fuel (IoEnd.wr_all md fuel k)).
Proof. exact C07Own.own_endpoints_good_lemma. Qed.

(* the DEFAULT read_exact_volatile / write_all_volatile loops (io.rs:56-78, :102-124) over ANY such stream return
   within (bytes of the buffer) + 1 rounds *)
Theorem C07_default_exact_loops_total : forall (S : Type) (P : N -> S -> Prop),
  (forall B B' s, B' <= B -> P B s -> P B' s) ->
  forall call : Io.callT S, C07Own.good_call P call ->
  forall zerr fuel, C07Own.good_exact P fuel (Io.exact_volatile zerr fuel call).
Proof. exact @C07Own.exact_volatile_good. Qed.

(* try_access as transcribed for the stream methods (Impl/IoGuest.v), for ANY list of regions and ANY callback that
   returns and reports at most what it was asked for: returns within (bytes of all regions) + 1 rounds *)
Theorem C07_io_try_access_total : forall (S : Type) (Q : N -> S -> Prop) md L count addr (f : IoGuest.cbT S),
  count < W64 ->
  (forall cur total len region s m, Q cur s -> In region L -> IoGuest.contains region cur = true ->
     len <= IoGuest.g_len region - (cur - IoGuest.g_start region) -> len < W64 ->
     exists s' m' r, f total len (cur - IoGuest.g_start region) region s m = Val ((s', m'), r) /\
       match r with IoGuest.GOk n => n <= len /\ Q (cur + n) s' | IoGuest.GErr _ => True end) ->
  forall fuel cur total s m, Q cur s -> total <= count ->
  (N.to_nat (Suite.C14.total_len L - C07Own.Vb L cur) < fuel)%nat ->
  exists v, IoGuest.try_access md fuel L count addr f cur total s m = Val v.
Proof. exact @C07Own.io_try_access_total. Qed.

(* ---------------------------------------------------------------- typed bulk copies *)
(* VolatileSlice::copy_to / copy_from::<T> on a slice of at most isize::MAX bytes: return for EVERY element size
   (1, 3, 16, sizes that do not divide the slice, 0) and every buffer: no division by zero, the internal
   get_array_ref(0, size / size_of::<T>()).unwrap() never fires *)
Theorem C07_slice_copies_total : forall m h s t buf, VolMem.vs_size s <= ISZ_MAX ->
  (exists v, VolMem.vs_copy_to m h s t buf = Val v) /\ (exists v, VolMem.vs_copy_from m h s t buf = Val v).
Proof. exact C07Copy.slice_copies_total_lemma. Qed.

(* get_array_ref::<T>(offset, n) with ANY offset and element count (huge counts answer TooBig / OutOfBounds), then
   copy_to / copy_from / copy_to_volatile_slice: all return - len() * element_size() never overflows *)
Theorem C07_array_copies_total : forall m h s t buf a n slice,
  (exists e, VolMem.vs_get_array_ref s (VolMem.ty_size t) a n = Val (VolMem.Err e)) \/
  (exists arr, VolMem.vs_get_array_ref s (VolMem.ty_size t) a n = Val (VolMem.Ok arr) /\
     (exists v, VolMem.va_copy_to m h arr t buf = Val v) /\ (exists v, VolMem.va_copy_from m h arr t buf = Val v) /\
     (exists v, VolMem.va_copy_to_volatile_slice m h arr (VolMem.ty_size t) slice = Val v)).
Proof. exact C07Copy.array_then_copies_total. Qed.

(* ---------------------------------------------------------------- ByteValued *)
(* from_slice / from_mut_slice (bytes.rs:44-87): None - not a panic - for every buffer whose length is not
   size_of::<T>() (also shorter ones and the empty one), whatever its address; Some only for a buffer of exactly that
   size, and then the reference is the buffer *)
Theorem C07_from_slice_total : forall T addr len,
  (len <> Volatile.e_size T -> Volatile.bv_from_slice T addr len = None /\ Volatile.bv_from_mut_slice T addr len = None) /\
  (forall r, Volatile.bv_from_slice T addr len = Some r ->
     len = Volatile.e_size T /\ Volatile.tr_addr r = addr /\ Volatile.tr_size r = len).
Proof. exact from_slice_total_lemma. Qed.

(* ---------------------------------------------------------------- the other documented panic *)
(* checked_align_up panics exactly when the alignment fails the code's own power-of-two test
   (p = 0 or p & (p - 1) <> 0), in both profiles; every power of two passes it *)
Theorem C07_align_up_panic_iff : forall m a p,
  (exists s, Address.a_checked_align_up m a p = Panic s) <-> is_pow2 p = false.
Proof. exact align_up_panic_iff_lemma. Qed.
Theorem C07_pow2_accepted : forall k, is_pow2 (2 ^ k) = true.
Proof. exact is_pow2_pow. Qed.

(* non-vacuity: layouts with a region at 0 and one ending at 2^64 (generic implementor) / at 2^64-1
   (mmap) are well-formed; an out-of-range array index is the documented panic; an over-reporting
   callback yields an error value; a range of usize::MAX bytes on a 1-byte-page bitmap returns *)
Example C07_nonvacuous :
  wf_layb W64 [(W64 - 8, 8); (0, 16); (16, 4)] = true /\
  wf_layb (W64 - 1) [(0, 16); (W64 - 17, 16)] = true /\
  (let c := {| q_mode := Debug; q_tgt := 0; q_par := [0; 64]; q_op := 8; q_ty := 2; q_a := 0; q_b := 4; q_c := 4; q_x := [] |} in
   wf07 c = true /\ run_C07 c = 2 /\ documented c = true) /\
  (let c := {| q_mode := Debug; q_tgt := 4; q_par := [18446744073709551608; 8; 0; 16]; q_op := 49; q_ty := 0;
               q_a := 18446744073709551612; q_b := 100; q_c := 1; q_x := [] |} in
   wf07 c = true /\ run_C07 c = 1) /\
  (let c := {| q_mode := Debug; q_tgt := 5; q_par := [4096; 1]; q_op := 50; q_ty := 0; q_a := 0;
               q_b := 18446744073709551615; q_c := 0; q_x := [] |} in
   wf07 c = true /\ run_C07 c = 0) /\
  (* 64 pages enlarged by 64 pages and one byte: 129 pages in 3 words; set_bit of the last page returns *)
  (let c := {| q_mode := Debug; q_tgt := 7; q_par := [262144; 4096; 262145]; q_op := 52; q_ty := 0; q_a := 128;
               q_b := 0; q_c := 0; q_x := [] |} in
   wf07 c = true /\ small07 c = true /\ run_C07 c = 0) /\
  (* guest-level write_all_volatile_to into a Cursor<&mut [u8]> of 16 bytes positioned at u64::MAX: an error value *)
  (let c := {| q_mode := Debug; q_tgt := 3; q_par := [0; 16; 4096; 32]; q_op := 64; q_ty := 0; q_a := 4;
               q_b := 8; q_c := 0; q_x := [4; 16; 18446744073709551615] |} in
   wf07 c = true /\ small07 c = true /\ run_C07 c = 1) /\
  (* read_volatile_from out of a Cursor<&[u8]> one past its end into a region: 0 bytes, a success value *)
  (let c := {| q_mode := Release; q_tgt := 2; q_par := [4096; 64]; q_op := 61; q_ty := 0; q_a := 0;
               q_b := 18446744073709551615; q_c := 0; q_x := [3; 5; 6] |} in
   wf07 c = true /\ small07 c = true /\ run_C07 c = 0) /\
  (* copy_to::<[u8;3]> out of a 61-byte slice (20 elements and one byte left over) *)
  (let c := {| q_mode := Debug; q_tgt := 0; q_par := [3; 61]; q_op := 65; q_ty := 4; q_a := 0;
               q_b := 61; q_c := 25; q_x := [] |} in
   wf07 c = true /\ small07 c = true /\ run_C07 c = 0).
Proof. vm_compute. repeat split. Qed.

Print Assumptions C07_model_ok.
Print Assumptions C07_checker_reading.
Print Assumptions C07_accessor_requests_total.
Print Assumptions C07_accessor_requests_mode_indep.
Print Assumptions C07_panic_only_if_documented.
Print Assumptions C07_accessor_chains.
Print Assumptions C07_container_store_total.
Print Assumptions C07_container_load_total.
Print Assumptions C07_container_typed_total.
Print Assumptions C07_array_index_panic_iff.
Print Assumptions C07_try_access_total.
Print Assumptions C07_try_access_profile_indep.
Print Assumptions C07_guest_queries_total.
Print Assumptions C07_region_last_addr.
Print Assumptions C07_guest_bytes_total.
Print Assumptions C07_guest_bytes_mode_indep.
Print Assumptions C07_guest_streams_total.
Print Assumptions C07_layout_test_sound.
Print Assumptions C07_stream_transfers_total.
Print Assumptions C07_bitmap_range_loop_bound.
Print Assumptions C07_bitmap_range_ops_total.
Print Assumptions C07_bitmap_bit_ops_total.
Print Assumptions C07_bitmap_slice_views_total.
Print Assumptions C07_bitmap_new_inv.
Print Assumptions C07_bitmap_enlarge_inv.
Print Assumptions C07_bitmap_new_enlarge_inv.
Print Assumptions C07_bitmap_enlarged_ops_total.
Print Assumptions C07_align_up_panic_iff.
Print Assumptions C07_pow2_accepted.
Print Assumptions C07_bitmap_views_total.
Print Assumptions C07_own_streams_total.
Print Assumptions C07_cursor_past_end.
Print Assumptions C07_own_endpoints_good.
Print Assumptions C07_default_exact_loops_total.
Print Assumptions C07_io_try_access_total.
Print Assumptions C07_slice_copies_total.
Print Assumptions C07_array_copies_total.
Print Assumptions C07_from_slice_total.
