(* C07 - guest-controlled addresses and lengths can never crash the monitor.  Statements only. *)
From VM Require Import Prelude.MachInt Prelude.Outcome Spec.C07 Suite.C07 Proofs.C07.

(* the checker accepts exactly: returned a value, returned an error, or a documented panic *)
Theorem C07_checker_reading : forall c o, ok_C07 c o = true <-> o = 0 \/ o = 1 \/ (o = 2 /\ documented c = true).
Proof. exact ok_C07_reading. Qed.

Print Assumptions C07_checker_reading.
