(* C08 - property theorems (statements only). *)
From VM Require Import Prelude.MachInt Prelude.Outcome Impl.Bitmap Impl.BitmapConc Spec.C08 Suite.C08 Proofs.C08.
Theorem C08_placeholder : True.
Proof. exact c08_placeholder. Qed.
Print Assumptions C08_placeholder.
