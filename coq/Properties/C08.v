(* C08 - a dirty mark is never lost when marking races with harvesting the bitmap.
   Statements only; proofs in Proofs/C08.v.  The model (Impl/BitmapConc.v): every atomic
   operation on a bitmap word is one indivisible step returning the replaced value; every library
   operation is a straight-line program of such primitives; an execution is ANY list of events -
   a superset of all interleavings of any number of threads, of any length.
   [bitm mm p] = bit p mod 64 of word p / 64; [sets pr p] / [keeps pr p]: primitive pr sets /
   preserves that bit.

   C08_model_ok ties the executable checker ok_C08 (which judges the REAL observations on every
   run) to the model: for every well-formed scheduled case - any number of threads, any programs,
   any schedule - the model's run satisfies the checker.  The Prop-level theorems are the property
   itself on arbitrary executions. *)
From VM Require Import Prelude.MachInt Prelude.Outcome Impl.Bitmap Impl.BitmapConc Spec.C09 Spec.C08 Suite.C08
  Proofs.C09 Proofs.C08.

(* the model satisfies the executable checker on ALL well-formed cases (wf_case08: non-zero page
   size, usize arguments; enforced by the suite decoder): conservation, no invention and the
   result shapes hold for the results the scheduled model run returns *)
Theorem C08_model_ok : forall c, wf_case08 c = true -> ok_C08 c (run_C08 c) = true.
Proof. exact C08_model_ok_lemma. Qed.

(* one primitive acts on each bit independently of all other bits: only the named word changes,
   and in it bit p becomes (old && keeps) || sets *)
Theorem C08_bits_independent : forall mm pr p, (N.to_nat (prim_word pr) < length mm)%nat ->
  bitm (fst (prim_step mm pr)) p = (bitm mm p && keeps pr p) || sets pr p.
Proof. exact step_bit. Qed.

(* two concurrent marks never erase one another: a fetch_or (and a load) preserves every bit *)
Theorem C08_marks_never_erase : forall w m p, keeps (FetchOr w m) p = true /\ keeps (Load w) p = true.
Proof. exact fetch_or_keeps_lemma. Qed.

(* conservation: a mark executed anywhere in any execution is either still set at the end, or the
   FIRST later primitive that clears that bit (the harvest's fetch_and(0), a reset-range's
   fetch_and(!mask), reset()'s store) returned an old value containing it - for a harvest: the page
   is in the harvest result *)
Theorem C08_mark_conserved : forall tr1 e tr2 mm p, in_range mm (tr1 ++ e :: tr2) ->
  sets (e_prim e) p = true ->
  bitm (fst (run_events mm (tr1 ++ e :: tr2))) p = true \/
  exists tra e' trb old, tr2 = tra ++ e' :: trb /\
    Forall (fun x => keeps (e_prim x) p = true) tra /\ keeps (e_prim e') p = false /\
    nth_error (snd (run_events mm (tr1 ++ e :: tr2))) (length tr1 + 1 + length tra) = Some (e', old) /\
    N.testbit old (p mod 64) = true.
Proof. exact mark_conserved_lemma. Qed.

(* no invention: a bit in the value returned by any primitive (harvest result, clone, is_bit_set)
   was set initially or by an earlier primitive; same for the final memory *)
Theorem C08_report_sound : forall tr mm i e old p, in_range mm tr ->
  nth_error (snd (run_events mm tr)) i = Some (e, old) -> p / 64 = prim_word (e_prim e) ->
  N.testbit old (p mod 64) = true ->
  bitm mm p = true \/ exists j e0, (j < i)%nat /\ nth_error tr j = Some e0 /\ sets (e_prim e0) p = true.
Proof. exact report_sound_lemma. Qed.

Theorem C08_final_sound : forall tr mm p, in_range mm tr -> bitm (fst (run_events mm tr)) p = true ->
  bitm mm p = true \/ exists j e0, nth_error tr j = Some e0 /\ sets (e_prim e0) p = true.
Proof. exact final_sound_lemma. Qed.

(* the programs of the library operations: which pages they set ... *)
Theorem C08_prog_sets : forall g o p, 0 < g_ps g -> wf_cop o = true ->
  ((exists pr, In pr (prog_of g o) /\ sets pr p = true) <->
   p < g_size g /\ match o with
                   | CSetRange a l => touches (g_ps g) a l p
                   | CSetBit i => p = i
                   | _ => False
                   end).
Proof. exact prog_sets_lemma. Qed.

(* ... which they clear (only reset-range / reset-bit on their own pages, the harvest and reset()
   on everything; marks, clone and is_bit_set clear nothing) ... *)
Theorem C08_prog_clears : forall g o p, 0 < g_ps g -> wf_cop o = true ->
  ((exists pr, In pr (prog_of g o) /\ keeps pr p = false) <->
   match o with
   | CResetRange a l => p < g_size g /\ touches (g_ps g) a l p
   | CResetBit i => p = i /\ i < g_size g
   | CHarvest | CReset => p / 64 < g_nwords g
   | _ => False
   end).
Proof. exact prog_clears_lemma. Qed.

(* ... and that no primitive indexes outside the word vector (no page index >= page count is ever
   written, no panic) *)
Theorem C08_prog_in_range : forall g o pr, 0 < g_ps g -> wf_cop o = true ->
  In pr (prog_of g o) -> prim_word pr < g_nwords g.
Proof. exact prog_in_range_lemma. Qed.

(* non-vacuity: 100 one-byte pages (two words), page 1 and 64 initially dirty; thread 0 marks
   pages 63..64 (straddling the word boundary), thread 1 harvests, interleaved 0,1,1,0: the model
   run satisfies the checker, page 63 is harvested, page 64 is marked after its word was harvested
   and is still set at the end *)
Example C08_nonvacuous :
  let c := {| k_bytes := 100; k_ps := 1; k_init := [1; 64]; k_sched := [0; 1; 1; 0];
              k_threads := [[CSetRange 63 2]; [CHarvest]] |} in
  wf_case08 c = true /\ ok_C08 c (run_C08 c) = true /\
  b_final (run_C08 c) = [64] /\ b_results (run_C08 c) = [[[]]; [[9223372036854775810; 1]]].
Proof. vm_compute. repeat split. Qed.

Print Assumptions C08_model_ok.
Print Assumptions C08_bits_independent.
Print Assumptions C08_marks_never_erase.
Print Assumptions C08_mark_conserved.
Print Assumptions C08_report_sound.
Print Assumptions C08_final_sound.
Print Assumptions C08_prog_sets.
Print Assumptions C08_prog_clears.
Print Assumptions C08_prog_in_range.
