(* C13 - volatile stream adapters transfer data exactly like their std::io counterparts.
   Statements only.  [vm_step md k st o] is one operation o of the vm-memory adapter of kind k
   (Impl/Io.v; &[u8], &mut [u8], Vec<u8>, Cursor<T>, Cursor<&mut [u8]>, File, byte queue, message queue) on stream state
   st, with the buffer placed in an arena [arena b = 8 canaries ++ b ++ 8 canaries]; [std_step k st o]
   is the documented std::io operation (Impl/Std.v) on the same state with an ordinary buffer.
   Result codes: (0,n) Ok(n)  (1,0) Ok(())  (2,0) UnexpectedEof  (3,0) WriteZero  (9,0) position set.
   [op_wf] / [st_inv] only exclude arithmetic beyond 2^64 (buffers and vectors longer than the
   address space, cursor positions not fitting u64); every content, length and position is covered. *)
From VM Require Import Prelude.MachInt Prelude.Outcome Prelude.C1314List Impl.Io Impl.Std Impl.IoGuest Spec.C13 Suite.C13 Proofs.C13.

(* the model satisfies the executable checker on every well-formed history (any length) *)
Theorem C13_model_ok : forall c, wf13 c -> ok_C13 c (run_C13 c) = true.
Proof. exact C13_model_ok_lemma. Qed.

(* one operation, any adapter, any state: same result code as std, same stream state afterwards,
   the buffer holds exactly std's bytes followed by its old tail (reads) / is untouched (writes);
   after a failed exact transfer std leaves the stream unspecified (ost = None) *)
Theorem C13_adapter_eq_std : forall md k content st o budget,
  op_wf k o -> st_inv k content st (nlen (op_buf o) + budget) ->
  exists st' b' rc ost bs,
    vm_step md k st o = Val ((st', arena b'), rc) /\ std_step k st o = Val (ost, bs, rc)
    /\ nlen b' = nlen (op_buf o)
    /\ (rc_success rc = true ->
          ost = Some st' /\ nlen bs <= nlen (op_buf o)
          /\ (is_read o = true -> b' = bs ++ ndrop (nlen bs) (op_buf o)))
    /\ (rc_success rc = false -> ost = None)
    /\ (is_read o = false -> b' = op_buf o).
Proof. exact adapter_eq_std_lemma. Qed.

(* all sequences of consecutive calls on one stream: the adapter, continuing from its own successive
   states, agrees with std at every step (lockstep is defined in Proofs/C13.v, section F) *)
Theorem C13_adapter_eq_std_histories : forall md k content ops st,
  Forall (op_wf k) ops -> st_inv k content st (sum_len ops) -> lockstep md k st ops.
Proof. exact lockstep_lemma. Qed.

(* exact variants: success precisely when the request fits what the stream can still deliver / take,
   UnexpectedEof (reads) / WriteZero (writes) otherwise; Vec always succeeds; descriptors: as std's loops *)
Theorem C13_exact_ok_iff : forall md k content st o budget st' m rc,
  op_wf k o -> st_inv k content st (nlen (op_buf o) + budget) -> is_exact13 o = true ->
  vm_step md k st o = Val ((st', m), rc) ->
  match k with
  | KVecW => rc = (1, 0)
  | KSliceR | KCurR | KSliceW | KCurW =>
      (nlen (op_buf o) <= room_of k st -> rc = (1, 0))
      /\ (room_of k st < nlen (op_buf o) -> rc = if is_read o then (2, 0) else (3, 0))
  | KFile | KQueue | KMsgQ => exists ost bs, std_step k st o = Val (ost, bs, rc)
  end.
Proof. exact exact_ok_iff_lemma. Qed.

(* no adapter touches memory outside the buffer it was given; writers do not touch the buffer either *)
Theorem C13_never_beyond_buffer : forall md k content st o budget st' m rc,
  op_wf k o -> st_inv k content st (nlen (op_buf o) + budget) ->
  vm_step md k st o = Val ((st', m), rc) ->
  nlen m = nlen (arena (op_buf o))
  /\ ntake margin m = ntake margin (arena (op_buf o))
  /\ ndrop (margin + nlen (op_buf o)) m = ndrop (margin + nlen (op_buf o)) (arena (op_buf o))
  /\ (is_read o = false -> m = arena (op_buf o)).
Proof. exact never_beyond_buffer_lemma. Qed.

(* the provided read_exact_volatile over a raw descriptor equals std's provided read_exact for EVERY
   OS behaviour (short reads, EINTR any number of times, errors, end of file in any order) *)
Theorem C13_default_read_exact_eq_std : forall (F : Type) (os_read : F -> N -> F * os_rres),
  (forall f len f' bs, os_read f len = (f', OsData bs) -> nlen bs <= len) ->
  forall fuel f b of out r, buf_ok b ->
  std_fd_read_exact os_read fuel f (nlen b) [] = Val (of, out, r) ->
  forall fuel', (fuel <= fuel')%nat ->
  exists f' b', read_exact_volatile fuel' (read_volatile_raw_fd os_read) f (arena b) (win b) = Val ((f', arena b'), r)
    /\ nlen b' = nlen b /\ (r = Ok tt -> of = Some f' /\ out = b') /\ (r <> Ok tt -> of = None).
Proof. exact default_read_exact_eq_std_lemma. Qed.

Theorem C13_default_write_all_eq_std : forall (F : Type) (os_write : F -> list N -> F * os_wres),
  (forall f d f' n, os_write f d = (f', OsCount n) -> n <= nlen d) ->
  forall fuel f d of r, buf_ok d ->
  std_fd_write_all os_write fuel f d = Val (of, r) ->
  forall fuel', (fuel <= fuel')%nat ->
  exists f', write_all_volatile fuel' (write_volatile_raw_fd os_write) f (arena d) (win d) = Val ((f', arena d), r)
    /\ (r = Ok tt -> of = Some f') /\ (r <> Ok tt -> of = None).
Proof. exact default_write_all_eq_std_lemma. Qed.

(* the message queue (AF_UNIX SOCK_SEQPACKET / SOCK_DGRAM socketpair), in closed form: an exact read is
   served in PIECES, one message per round of the default loop.  For a queue holding the messages [ms]
   (payload bytes < 256) the adapter returns what [msgq_exact ms (nlen b) []] computes by recursion over
   the message list: Ok when the messages in front are non-empty until the buffer is full - the buffer
   then holds the concatenated pieces, the excess of the last message used is discarded, the remaining
   messages stay queued -, UnexpectedEof at an empty message, the descriptor's EAGAIN on a drained queue *)
Theorem C13_msgq_read_exact_pieces : forall md ms b p, Forall payload_ok ms -> buf_ok b ->
  exists st' b',
    vm_step md KMsgQ (msgq_state p [] ms) (OReadExact b)
      = Val ((st', arena b'), rc_unit (snd (msgq_exact ms (nlen b) [])))
    /\ nlen b' = nlen b
    /\ (forall ms', fst (fst (msgq_exact ms (nlen b) [])) = Some ms' ->
          st' = msgq_state p [] ms' /\ b' = snd (fst (msgq_exact ms (nlen b) []))).
Proof. exact msgq_read_exact_pieces_lemma. Qed.

(* stream kinds 11 / 12 of the suite reach the descriptor through VolatileSlice::{read_volatile_from,
   read_exact_volatile_from, write_volatile_to, write_all_volatile_to}(0, fd, len) on the buffer's own
   slice (Impl/IoGuest.v vs_* : offset / subslice / get_slice, retry_eintr!, then the ReadVolatile /
   WriteVolatile call): for the descriptor oracles of the suite this is the same computation as the
   direct call that [vm_step] models *)
Theorem C13_slice_route_same : forall k b st f, is_fd k = true -> buf_ok b ->
  vs_read_volatile_from (Datatypes.S f) (read_volatile_raw_fd (os_read_of k)) (win b) 0 st (arena b) (nlen b)
    = read_volatile_raw_fd (os_read_of k) st (arena b) (win b)
  /\ vs_read_exact_volatile_from (fuel_of b) (read_volatile_raw_fd (os_read_of k)) (win b) 0 st (arena b) (nlen b)
    = read_exact_volatile (fuel_of b) (read_volatile_raw_fd (os_read_of k)) st (arena b) (win b)
  /\ vs_write_volatile_to (Datatypes.S f) (write_volatile_raw_fd (os_write_of k)) (win b) 0 st (arena b) (nlen b)
    = write_volatile_raw_fd (os_write_of k) st (arena b) (win b)
  /\ vs_write_all_volatile_to (fuel_of b) (write_volatile_raw_fd (os_write_of k)) (win b) 0 st (arena b) (nlen b)
    = write_all_volatile (fuel_of b) (write_volatile_raw_fd (os_write_of k)) st (arena b) (win b).
Proof. exact slice_route_same_lemma. Qed.

(* non-vacuity: a cursor past the end, then repositioned, read short, then an exact read that fails *)
Example C13_nonvacuous :
  let c := {| c_mode := Debug; c_kind := KCurR;
              c_init := {| s_data := [1;2;3;4;5;6;7;8;9;10]; s_pos := 18446744073709551615; s_out := [] |};
              c_ops := [ORead [0;0;0]; OSetPos 7; ORead [0;0;0;0;0]; OSetPos 2; OReadExact [0;0;0;0];
                        OReadExact [0;0;0;0;0;0;0]] |} in
  wf13 c /\ map a_rc (run_C13 c) = [(0,0); (9,0); (0,3); (9,0); (1,0); (2,0)]
  /\ map a_pos (run_C13 c) = [18446744073709551615; 7; 10; 2; 6; 6]
  /\ map a_buf (run_C13 c) = [[0;0;0]; []; [8;9;10;0;0]; []; [3;4;5;6]; [0;0;0;0;0;0;0]].
Proof.
  split.
  - split; [reflexivity|]. split.
    + repeat constructor; cbn; unfold buf_ok; cbn; rewrite ?W64_val; try reflexivity; lia.
    + cbn. unfold cur_ok. cbn. rewrite W64_val. split; reflexivity.
  - vm_compute. repeat split.
Qed.

(* non-vacuity for the message queue: the exact read of 8 bytes is assembled from THREE messages (3 + 3 + 2),
   the fourth stays queued; a 2-byte read of it discards the excess; the empty queue answers EAGAIN
   ((5,0), passed on unchanged); an empty message ends an exact read with UnexpectedEof; writes enqueue
   one message each (also the empty one) *)
Example C13_msgq_nonvacuous :
  let c := {| c_mode := Debug; c_kind := KMsgQ;
              c_init := {| s_data := [1;2;3;256; 4;5;6;256; 7;8;256; 9;10;11;12;256]; s_pos := 0; s_out := [] |};
              c_ops := [OReadExact [0;0;0;0;0;0;0;0]; ORead [0;0]; ORead [0]; OWrite [5;6]; OWrite []] |} in
  let d := {| c_mode := Debug; c_kind := KMsgQ;
              c_init := {| s_data := [1;2;3;256; 256; 4;5;6;256]; s_pos := 0; s_out := [] |};
              c_ops := [OReadExact [0;0;0;0;0]; ORead [0;0;0;0;0]] |} in
  wf13 c /\ ok_C13 c (run_C13 c) = true
  /\ map a_rc (run_C13 c) = [(1,0); (0,2); (5,0); (0,2); (0,0)]
  /\ map a_buf (run_C13 c) = [[1;2;3;4;5;6;7;8]; [9;10]; [0]; [5;6]; []]
  /\ map a_data (run_C13 c) = [[9;10;11;12;256]; []; []; []; []]
  /\ map a_out (run_C13 c) = [[]; []; []; [5;6;256]; [256]]
  /\ map a_rc (run_C13 d) = [(2,0); (0,3)] /\ map a_buf (run_C13 d) = [[1;2;3;0;0]; [4;5;6;0;0]].
Proof.
  split.
  - split; [reflexivity|]. split; [|exact I].
    repeat constructor; cbn; unfold buf_ok; cbn; rewrite ?W64_val; try reflexivity; lia.
  - vm_compute. repeat split.
Qed.

Example C13_msgq_exact_nonvacuous :
  msgq_exact [[1;2;3]; [4;5;6]; [7;8]; [9;10;11;12]] 8 [] = (Some [[9;10;11;12]], [1;2;3;4;5;6;7;8], Ok tt)
  /\ msgq_exact [[1;2;3]; [4;5;6]] 5 [] = (Some [], [1;2;3;4;5], Ok tt)
  /\ msgq_exact [[1;2;3]; []; [4;5;6]] 5 [] = (None, [], Err (VIo EUnexpectedEof))
  /\ msgq_exact [[1;2;3]] 5 [] = (None, [], Err (VIo EOther)).
Proof. vm_compute. repeat split. Qed.

Print Assumptions C13_model_ok.
Print Assumptions C13_adapter_eq_std.
Print Assumptions C13_adapter_eq_std_histories.
Print Assumptions C13_exact_ok_iff.
Print Assumptions C13_never_beyond_buffer.
Print Assumptions C13_default_read_exact_eq_std.
Print Assumptions C13_default_write_all_eq_std.
Print Assumptions C13_msgq_read_exact_pieces.
Print Assumptions C13_slice_route_same.
