(* C13 - property theorems (statements only). *)
From VM Require Import Prelude.MachInt Prelude.Outcome Prelude.C1314List Impl.Io Impl.Std Spec.C13 Suite.C13 Proofs.C13.

Theorem C13_std_slice_read_count : forall st len,
  snd (std_slice_read st len) = Ok (N.min len (nlen (slice_rem st))).
Proof. exact std_slice_read_count_lemma. Qed.

Print Assumptions C13_std_slice_read_count.
