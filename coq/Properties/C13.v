(* C13 - volatile stream adapters transfer data exactly like their std::io counterparts.
   Statements only.  [vm_step md k st o] is one operation o of the vm-memory adapter of kind k
   (Impl/Io.v; &[u8], &mut [u8], Vec<u8>, Cursor<T>, Cursor<&mut [u8]>, File, byte queue, message queue) on stream state
   st, with the buffer placed in an arena [arena b = 8 canaries ++ b ++ 8 canaries]; [std_step k st o]
   is the documented std::io operation (Impl/Std.v) on the same state with an ordinary buffer.
   Result codes: (0,n) Ok(n)  (1,0) Ok(())  (2,0) UnexpectedEof  (3,0) WriteZero  (9,0) position set.
   [op_wf] / [st_inv] only exclude arithmetic beyond 2^64 (buffers and vectors longer than the
   address space, cursor positions not fitting u64); every content, length and position is covered. *)
From VM Require Import Prelude.MachInt Prelude.Outcome Prelude.C1314List Impl.Io Impl.Std Impl.IoGuest Spec.C13 Suite.C13 Proofs.C13.
From VM Require Import Spec.C13fd Suite.C13fd Proofs.C13fd.
From VM Require Import Spec.C13big Suite.C13big Proofs.C13big.

(* the model satisfies the executable checker on every well-formed history (any length) *)
Theorem C13_model_ok : forall c, wf13 c -> ok_C13 c (run_C13 c) = true.
Proof. exact C13_model_ok_lemma. Qed.

(* one operation, any adapter, any state: same result code as std, same stream state afterwards,
   the buffer holds exactly std's bytes followed by its old tail (reads) / is untouched (writes);
   after a failed exact transfer std leaves the stream unspecified (ost = None) *)
Theorem C13_adapter_eq_std : forall md k content st o budget,
  op_wf k o -> st_inv k content st (nlen (op_buf o) + budget) ->
  exists st' b' rc ost bs,
    vm_step md k st o = Val ((st', arena b'), rc) /\ std_step k st o = Val (ost, bs, rc)
    /\ nlen b' = nlen (op_buf o)
    /\ (rc_success rc = true ->
          ost = Some st' /\ nlen bs <= nlen (op_buf o)
          /\ (is_read o = true -> b' = bs ++ ndrop (nlen bs) (op_buf o)))
    /\ (rc_success rc = false -> ost = None)
    /\ (is_read o = false -> b' = op_buf o).
Proof. exact adapter_eq_std_lemma. Qed.

(* all sequences of consecutive calls on one stream: the adapter, continuing from its own successive
   states, agrees with std at every step (lockstep is defined in Proofs/C13.v, section F) *)
Theorem C13_adapter_eq_std_histories : forall md k content ops st,
  Forall (op_wf k) ops -> st_inv k content st (sum_len ops) -> lockstep md k st ops.
Proof. exact lockstep_lemma. Qed.

(* exact variants: success precisely when the request fits what the stream can still deliver / take,
   UnexpectedEof (reads) / WriteZero (writes) otherwise; Vec always succeeds; descriptors: as std's loops *)
Theorem C13_exact_ok_iff : forall md k content st o budget st' m rc,
  op_wf k o -> st_inv k content st (nlen (op_buf o) + budget) -> is_exact13 o = true ->
  vm_step md k st o = Val ((st', m), rc) ->
  match k with
  | KVecW => rc = (1, 0)
  | KSliceR | KCurR | KSliceW | KCurW =>
      (nlen (op_buf o) <= room_of k st -> rc = (1, 0))
      /\ (room_of k st < nlen (op_buf o) -> rc = if is_read o then (2, 0) else (3, 0))
  | KFile | KQueue | KMsgQ => exists ost bs, std_step k st o = Val (ost, bs, rc)
  end.
Proof. exact exact_ok_iff_lemma. Qed.

(* no adapter touches memory outside the buffer it was given; writers do not touch the buffer either *)
Theorem C13_never_beyond_buffer : forall md k content st o budget st' m rc,
  op_wf k o -> st_inv k content st (nlen (op_buf o) + budget) ->
  vm_step md k st o = Val ((st', m), rc) ->
  nlen m = nlen (arena (op_buf o))
  /\ ntake margin m = ntake margin (arena (op_buf o))
  /\ ndrop (margin + nlen (op_buf o)) m = ndrop (margin + nlen (op_buf o)) (arena (op_buf o))
  /\ (is_read o = false -> m = arena (op_buf o)).
Proof. exact never_beyond_buffer_lemma. Qed.

(* the provided read_exact_volatile over a raw descriptor equals std's provided read_exact for EVERY
   OS behaviour (short reads, EINTR any number of times, errors, end of file in any order) *)
Theorem C13_default_read_exact_eq_std : forall (F : Type) (os_read : F -> N -> F * os_rres),
  (forall f len f' bs, os_read f len = (f', OsData bs) -> nlen bs <= len) ->
  forall fuel f b of out r, buf_ok b ->
  std_fd_read_exact os_read fuel f (nlen b) [] = Val (of, out, r) ->
  forall fuel', (fuel <= fuel')%nat ->
  exists f' b', read_exact_volatile fuel' (read_volatile_raw_fd os_read) f (arena b) (win b) = Val ((f', arena b'), r)
    /\ nlen b' = nlen b /\ (r = Ok tt -> of = Some f' /\ out = b') /\ (r <> Ok tt -> of = None).
Proof. exact default_read_exact_eq_std_lemma. Qed.

Theorem C13_default_write_all_eq_std : forall (F : Type) (os_write : F -> list N -> F * os_wres),
  (forall f d f' n, os_write f d = (f', OsCount n) -> n <= nlen d) ->
  forall fuel f d of r, buf_ok d ->
  std_fd_write_all os_write fuel f d = Val (of, r) ->
  forall fuel', (fuel <= fuel')%nat ->
  exists f', write_all_volatile fuel' (write_volatile_raw_fd os_write) f (arena d) (win d) = Val ((f', arena d), r)
    /\ (r = Ok tt -> of = Some f') /\ (r <> Ok tt -> of = None).
Proof. exact default_write_all_eq_std_lemma. Qed.

(* the message queue (AF_UNIX SOCK_SEQPACKET / SOCK_DGRAM socketpair), in closed form: an exact read is
   served in PIECES, one message per round of the default loop.  For a queue holding the messages [ms]
   (payload bytes < 256) the adapter returns what [msgq_exact ms (nlen b) []] computes by recursion over
   the message list: Ok when the messages in front are non-empty until the buffer is full - the buffer
   then holds the concatenated pieces, the excess of the last message used is discarded, the remaining
   messages stay queued -, UnexpectedEof at an empty message, the descriptor's EAGAIN on a drained queue *)
Theorem C13_msgq_read_exact_pieces : forall md ms b p, Forall payload_ok ms -> buf_ok b ->
  exists st' b',
    vm_step md KMsgQ (msgq_state p [] ms) (OReadExact b)
      = Val ((st', arena b'), rc_unit (snd (msgq_exact ms (nlen b) [])))
    /\ nlen b' = nlen b
    /\ (forall ms', fst (fst (msgq_exact ms (nlen b) [])) = Some ms' ->
          st' = msgq_state p [] ms' /\ b' = snd (fst (msgq_exact ms (nlen b) []))).
Proof. exact msgq_read_exact_pieces_lemma. Qed.

(* stream kinds 11 / 12 of the suite reach the descriptor through VolatileSlice::{read_volatile_from,
   read_exact_volatile_from, write_volatile_to, write_all_volatile_to}(0, fd, len) on the buffer's own
   slice (Impl/IoGuest.v vs_* : offset / subslice / get_slice, retry_eintr!, then the ReadVolatile /
   WriteVolatile call): for the descriptor oracles of the suite this is the same computation as the
   direct call that [vm_step] models *)
Theorem C13_slice_route_same : forall k b st f, is_fd k = true -> buf_ok b ->
  vs_read_volatile_from (Datatypes.S f) (read_volatile_raw_fd (os_read_of k)) (win b) 0 st (arena b) (nlen b)
    = read_volatile_raw_fd (os_read_of k) st (arena b) (win b)
  /\ vs_read_exact_volatile_from (fuel_of b) (read_volatile_raw_fd (os_read_of k)) (win b) 0 st (arena b) (nlen b)
    = read_exact_volatile (fuel_of b) (read_volatile_raw_fd (os_read_of k)) st (arena b) (win b)
  /\ vs_write_volatile_to (Datatypes.S f) (write_volatile_raw_fd (os_write_of k)) (win b) 0 st (arena b) (nlen b)
    = write_volatile_raw_fd (os_write_of k) st (arena b) (win b)
  /\ vs_write_all_volatile_to (fuel_of b) (write_volatile_raw_fd (os_write_of k)) (win b) 0 st (arena b) (nlen b)
    = write_all_volatile (fuel_of b) (write_volatile_raw_fd (os_write_of k)) st (arena b) (win b).
Proof. exact slice_route_same_lemma. Qed.

(* non-vacuity: a cursor past the end, then repositioned, read short, then an exact read that fails *)
Example C13_nonvacuous :
  let c := {| c_mode := Debug; c_kind := KCurR;
              c_init := {| s_data := [1;2;3;4;5;6;7;8;9;10]; s_pos := 18446744073709551615; s_out := [] |};
              c_ops := [ORead [0;0;0]; OSetPos 7; ORead [0;0;0;0;0]; OSetPos 2; OReadExact [0;0;0;0];
                        OReadExact [0;0;0;0;0;0;0]] |} in
  wf13 c /\ map a_rc (run_C13 c) = [(0,0); (9,0); (0,3); (9,0); (1,0); (2,0)]
  /\ map a_pos (run_C13 c) = [18446744073709551615; 7; 10; 2; 6; 6]
  /\ map a_buf (run_C13 c) = [[0;0;0]; []; [8;9;10;0;0]; []; [3;4;5;6]; [0;0;0;0;0;0;0]].
Proof.
  split.
  - split; [reflexivity|]. split.
    + repeat constructor; cbn; unfold buf_ok; cbn; rewrite ?W64_val; try reflexivity; lia.
    + cbn. unfold cur_ok. cbn. rewrite W64_val. split; reflexivity.
  - vm_compute. repeat split.
Qed.

(* non-vacuity for the message queue: the exact read of 8 bytes is assembled from THREE messages (3 + 3 + 2),
   the fourth stays queued; a 2-byte read of it discards the excess; the empty queue answers EAGAIN
   ((5,0), passed on unchanged); an empty message ends an exact read with UnexpectedEof; writes enqueue
   one message each (also the empty one) *)
Example C13_msgq_nonvacuous :
  let c := {| c_mode := Debug; c_kind := KMsgQ;
              c_init := {| s_data := [1;2;3;256; 4;5;6;256; 7;8;256; 9;10;11;12;256]; s_pos := 0; s_out := [] |};
              c_ops := [OReadExact [0;0;0;0;0;0;0;0]; ORead [0;0]; ORead [0]; OWrite [5;6]; OWrite []] |} in
  let d := {| c_mode := Debug; c_kind := KMsgQ;
              c_init := {| s_data := [1;2;3;256; 256; 4;5;6;256]; s_pos := 0; s_out := [] |};
              c_ops := [OReadExact [0;0;0;0;0]; ORead [0;0;0;0;0]] |} in
  wf13 c /\ ok_C13 c (run_C13 c) = true
  /\ map a_rc (run_C13 c) = [(1,0); (0,2); (5,0); (0,2); (0,0)]
  /\ map a_buf (run_C13 c) = [[1;2;3;4;5;6;7;8]; [9;10]; [0]; [5;6]; []]
  /\ map a_data (run_C13 c) = [[9;10;11;12;256]; []; []; []; []]
  /\ map a_out (run_C13 c) = [[]; []; []; [5;6;256]; [256]]
  /\ map a_rc (run_C13 d) = [(2,0); (0,3)] /\ map a_buf (run_C13 d) = [[1;2;3;0;0]; [4;5;6;0;0]].
Proof.
  split.
  - split; [reflexivity|]. split; [|exact I].
    repeat constructor; cbn; unfold buf_ok; cbn; rewrite ?W64_val; try reflexivity; lia.
  - vm_compute. repeat split.
Qed.

Example C13_msgq_exact_nonvacuous :
  msgq_exact [[1;2;3]; [4;5;6]; [7;8]; [9;10;11;12]] 8 [] = (Some [[9;10;11;12]], [1;2;3;4;5;6;7;8], Ok tt)
  /\ msgq_exact [[1;2;3]; [4;5;6]] 5 [] = (Some [], [1;2;3;4;5], Ok tt)
  /\ msgq_exact [[1;2;3]; []; [4;5;6]] 5 [] = (None, [], Err (VIo EUnexpectedEof))
  /\ msgq_exact [[1;2;3]] 5 [] = (None, [], Err (VIo EOther)).
Proof. vm_compute. repeat split. Qed.

Print Assumptions C13_model_ok.
Print Assumptions C13_adapter_eq_std.
Print Assumptions C13_adapter_eq_std_histories.
Print Assumptions C13_exact_ok_iff.
Print Assumptions C13_never_beyond_buffer.
Print Assumptions C13_default_read_exact_eq_std.
Print Assumptions C13_default_write_all_eq_std.
Print Assumptions C13_msgq_read_exact_pieces.
Print Assumptions C13_slice_route_same.

(* ---------------------------------------------------------------------------------------------
   SCRIPTED REAL DESCRIPTORS (suite C13fd).  The OS oracle of the raw-fd adapters is instantiated with a
   descriptor whose read(2) / write(2) calls follow a script of per-call behaviours of ANY length
   (Impl/Io.v [fbeh]: FFull | FShort k | FZero | FEintr | FErr, the real call once the script is over;
   [scr_read] / [scr_write] on top of the file / byte-queue oracle; harness/src/fdscript.rs makes a real
   descriptor behave like that).  [sfd0 st sc] is the descriptor in state st with script sc and call counter 0;
   [vm_step_scr] / [vm_step_route] one adapter operation (directly / through VolatileSlice::*_from / *_to(0, fd, len)),
   [std_step_scr] the documented std operation (single read / write: one call, EINTR and errors passed on;
   read_exact / write_all: the provided loops) on the same scripted descriptor. *)

(* the model satisfies the executable checker on every well-formed history (any number of operations, every
   operation with its own script of any length), for both routes *)
Theorem C13fd_model_ok : forall route c, wf13fd route c -> ok_C13fd c (map fst (run_C13fd route c)) = true.
Proof. exact C13fd_model_ok_lemma. Qed.

(* the scripted oracle never hands out more than it was asked for - the only hypothesis of the oracle-generic
   theorems C13_default_read_exact_eq_std / C13_default_write_all_eq_std, which therefore apply to it *)
Theorem C13_scripted_oracle_bounded : forall k,
  (forall f len f' bs, scr_read (os_read_of k) f len = (f', OsData bs) -> nlen bs <= len)
  /\ (forall f d f' n, scr_write (os_write_of k) f d = (f', OsCount n) -> n <= nlen d).
Proof. exact scr_oracle_bounded_lemma. Qed.

(* read_exact_volatile over a scripted descriptor, script of ANY length: std's provided read_exact terminates
   (fuel = buffer length + script length + 2), the adapter returns the same result, on success the same stream
   state and the same buffer, after a failure std's state is unspecified; Interrupted is NEVER the result *)
Theorem C13_scripted_read_exact_eq_std : forall k st sc b, buf_ok b ->
  exists of out r f' b',
    std_fd_read_exact (scr_read (os_read_of k)) (std_fuel (nlen b) sc) (sfd0 st sc) (nlen b) [] = Val (of, out, r)
    /\ read_exact_volatile (fuel_scr b sc) (read_volatile_raw_fd (scr_read (os_read_of k))) (sfd0 st sc) (arena b) (win b)
       = Val ((f', arena b'), r)
    /\ nlen b' = nlen b /\ (r = Ok tt -> of = Some f' /\ out = b') /\ (r <> Ok tt -> of = None)
    /\ r <> Err (VIo EInterrupted).
Proof. exact scripted_read_exact_eq_std_lemma. Qed.

Theorem C13_scripted_write_all_eq_std : forall k st sc d, buf_ok d ->
  exists of r f',
    std_fd_write_all (scr_write (os_write_of k)) (std_fuel (nlen d) sc) (sfd0 st sc) d = Val (of, r)
    /\ write_all_volatile (fuel_scr d sc) (write_volatile_raw_fd (scr_write (os_write_of k))) (sfd0 st sc) (arena d) (win d)
       = Val ((f', arena d), r)
    /\ (r = Ok tt -> of = Some f') /\ (r <> Ok tt -> of = None)
    /\ r <> Err (VIo EInterrupted).
Proof. exact scripted_write_all_eq_std_lemma. Qed.

(* a hard error is reported: j interruptions (retried) followed by an error end both exact forms on a non-empty
   buffer after exactly j+1 calls with Err(other), the stream and the buffer untouched, the rest of the script unused *)
Theorem C13_scripted_hard_error_reported : forall k st j rest b, b <> [] -> buf_ok b ->
  read_exact_volatile (fuel_scr b (repeat FEintr j ++ FErr :: rest)) (read_volatile_raw_fd (scr_read (os_read_of k)))
    (sfd0 st (repeat FEintr j ++ FErr :: rest)) (arena b) (win b)
  = Val (({| f_st := st; f_script := rest; f_calls := N.of_nat j + 1 |}, arena b), Err (VIo EOther))
  /\ write_all_volatile (fuel_scr b (repeat FEintr j ++ FErr :: rest)) (write_volatile_raw_fd (scr_write (os_write_of k)))
       (sfd0 st (repeat FEintr j ++ FErr :: rest)) (arena b) (win b)
     = Val (({| f_st := st; f_script := rest; f_calls := N.of_nat j + 1 |}, arena b), Err (VIo EOther)).
Proof. exact scripted_hard_error_reported_lemma. Qed.

(* stream kinds 13..15 reach the descriptor through VolatileSlice::{read_volatile_from, read_exact_volatile_from,
   write_volatile_to, write_all_volatile_to}(0, fd, len): the same computation as the direct call, provided the script
   of an up-to operation does not START with EINTR (the up-to forms of that route retry it: C14's subject) *)
Theorem C13fd_slice_route_same : forall md k f o, route_ok true (o, f_script f) = true -> buf_ok (op_buf o) ->
  vm_step_route md k f o = vm_step_scr md k f o.
Proof. exact route_same_scr_lemma. Qed.

(* non-vacuity: a regular file holding 10 bytes.  An exact read of 6 bytes under [EINTR; short 2; EINTR; EINTR; short 1]
   is assembled from 2 + 1 + 3 bytes in 6 calls; write_all of 4 bytes under [short 1; EINTR; zero] reports WriteZero after
   one byte went out (3 calls); a single read under [EINTR] reports Interrupted, as std's read does; an exact read under
   [EINTR; hard error] reports the error after 2 calls and leaves buffer and offset alone *)
Example C13fd_nonvacuous :
  let c := {| d_mode := Debug; d_kind := KFile;
              d_init := {| s_data := [1;2;3;4;5;6;7;8;9;10]; s_pos := 1; s_out := [] |};
              d_ops := [(OReadExact [0;0;0;0;0;0], [FEintr; FShort 2; FEintr; FEintr; FShort 1]);
                        (OWriteAll [21;22;23;24], [FShort 1; FEintr; FZero]);
                        (ORead [0;0], [FEintr]);
                        (OReadExact [0;0;0], [FEintr; FErr; FFull])] |} in
  wf13fd false c /\ ok_C13fd c (map fst (run_C13fd false c)) = true
  /\ map (fun x => a_rc (fst x)) (run_C13fd false c) = [(1,0); (3,0); (4,0); (5,0)]
  /\ map snd (run_C13fd false c) = [6; 3; 1; 2]
  /\ map (fun x => a_buf (fst x)) (run_C13fd false c) = [[2;3;4;5;6;7]; [21;22;23;24]; [0;0]; [0;0;0]]
  /\ map (fun x => a_pos (fst x)) (run_C13fd false c) = [7; 8; 8; 8]
  /\ map (fun x => a_data (fst x)) (run_C13fd false c)
     = [[1;2;3;4;5;6;7;8;9;10]; [1;2;3;4;5;6;7;21;9;10]; [1;2;3;4;5;6;7;21;9;10]; [1;2;3;4;5;6;7;21;9;10]].
Proof.
  split.
  - split; [reflexivity|]. split; [reflexivity|]. split; [|discriminate].
    repeat constructor; cbn; unfold buf_ok; cbn; rewrite ?W64_val; try reflexivity; lia.
  - vm_compute. repeat split.
Qed.

Print Assumptions C13fd_model_ok.
Print Assumptions C13_scripted_oracle_bounded.
Print Assumptions C13_scripted_read_exact_eq_std.
Print Assumptions C13_scripted_write_all_eq_std.
Print Assumptions C13_scripted_hard_error_reported.
Print Assumptions C13fd_slice_route_same.

(* ---------------------------------------------------------------------------------------------
   LARGE SIZES (suite C13big; Spec/C13big.v, Suite/C13big.v, Proofs/C13big.v).  Buffers and streams of 4095 ... 3*2^20
   bytes are run at the level of LENGTHS: a stream is [bst] = (length, position, bytes delivered to the peer), the
   adapters are [b_call] / [b_retry] / [b_exact_loop] / [b_exact] (src/io.rs transcribed over lengths), std is
   [b_std_step]; the harness reports counts and first-difference indices against the expected pattern bytes. *)

(* the length-level model satisfies the checker for all sizes and scripts of any length; it never panics or runs dry *)
Theorem C13big_model_ok : forall kd c, wf13big kd c = true -> ok_C13big c (run_C13big c) = true.
Proof. exact C13big_model_ok_lemma. Qed.

Theorem C13big_terminates : forall kd c, wf13big kd c = true -> exists f rc, b_vm_step c = Val (f, rc).
Proof. exact C13big_terminates_lemma. Qed.

(* THE LINK: the length-level model IS the byte-list model of Impl/Io.v (the one suites C13 / C13fd run and the
   theorems above are about) seen through [abs_st] = (length of the data, position, length of what the peer got) - for
   EVERY content, size, position and script, not only the ones a run can afford.  In-memory adapters: *)
Theorem C13big_is_Io_mem : forall md k bk content st o bo budget st' m' rc,
  bk_of k = Some bk -> fd_kind k = false -> bop_of13 o = Some bo ->
  op_wf k o -> st_inv k content st (nlen (op_buf o) + budget) ->
  vm_step md k st o = Val ((st', m'), rc) ->
  exists f',
    b_vm_step {| g_mode := md; g_kind := bk; g_init := abs_st st; g_op := bo; g_blen := nlen (op_buf o);
                 g_script := [] |} = Val (f', rc)
    /\ h_st f' = abs_st st'.
Proof. exact big_is_Io_mem_lemma. Qed.

(* descriptors under any script: same result, same stream lengths, same number of calls, same rest of the script *)
Theorem C13big_is_Io_fd : forall md k bk st sc o bo f1 m' rc,
  fd_kind k = true -> bk_of k = Some bk -> bop_of13 o = Some bo -> buf_ok (op_buf o) ->
  vm_step_scr md k (sfd0 st sc) o = Val ((f1, m'), rc) ->
  exists f',
    b_vm_step {| g_mode := md; g_kind := bk; g_init := abs_st st; g_op := bo; g_blen := nlen (op_buf o);
                 g_script := sc |} = Val (f', rc)
    /\ h_st f' = abs_st (f_st f1) /\ h_calls f' = f_calls f1 /\ h_script f' = f_script f1.
Proof. exact big_is_Io_fd_lemma. Qed.

(* ... and the length-level std oracle is Std.v's *)
Theorem C13big_std_is_Std_mem : forall k bk st sc o bo ost bs rc,
  bk_of k = Some bk -> fd_kind k = false -> bop_of13 o = Some bo -> op_allowed k o = true ->
  std_step k st o = Val (ost, bs, rc) ->
  b_std_step bk (abs_st st) sc bo (nlen (op_buf o))
  = Val (option_map abs_st ost, rc, if is_read o then nlen bs else nlen (op_buf o)).
Proof. exact big_std_is_Std_mem_lemma. Qed.

Theorem C13big_std_is_Std_fd : forall k bk st sc o bo ost bs rc,
  fd_kind k = true -> bk_of k = Some bk -> bop_of13 o = Some bo ->
  std_step_scr k st sc o = Val (ost, bs, rc) ->
  exists moved,
    b_std_step bk (abs_st st) sc bo (nlen (op_buf o)) = Val (option_map abs_st ost, rc, moved)
    /\ (rc_success rc = true -> moved = moved_of o bs rc)
    /\ (is_exact13 o = false -> rc_success rc = false -> moved = 0).
Proof. exact big_std_is_Std_fd_lemma. Qed.

(* non-vacuity: a write of 2^20+1 bytes to a file is ONE call that moves them all; an exact read of 3 MiB whose first
   read(2) is cut at 2^20+1 bytes takes two calls; a Cursor 5 bytes past its end reads nothing *)
Example C13big_nonvacuous :
  let mk := fun k len pos op blen sc =>
    {| g_mode := Debug; g_kind := k; g_init := {| b_len := len; b_pos := pos; b_out := 0 |}; g_op := op; g_blen := blen;
       g_script := sc |} in
  let c1 := mk BFile 0 0 BWrite 1048577 [] in
  let c2 := mk BFile 3145728 0 BReadExact 3145728 [FShort 1048577] in
  let c3 := mk BCurR 1048576 1048581 BRead 4096 [] in
  wf13big 5 c1 = true /\ v_rc (run_C13big c1) = (0, 1048577) /\ v_calls (run_C13big c1) = 1 /\ v_slen (run_C13big c1) = 1048577
  /\ wf13big 5 c2 = true /\ v_rc (run_C13big c2) = (1, 0) /\ v_calls (run_C13big c2) = 2 /\ v_moved (run_C13big c2) = 3145728
  /\ wf13big 3 c3 = true /\ v_rc (run_C13big c3) = (0, 0) /\ v_apos (run_C13big c3) = 1048581.
Proof. vm_compute. repeat split. Qed.

Print Assumptions C13big_model_ok.
Print Assumptions C13big_terminates.
Print Assumptions C13big_is_Io_mem.
Print Assumptions C13big_is_Io_fd.
Print Assumptions C13big_std_is_Std_mem.
Print Assumptions C13big_std_is_Std_fd.
