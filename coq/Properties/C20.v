(* C20 - property theorems (statements only). Host assumption: little-endian (trusted base). *)
From VM Require Import Prelude.MachInt Prelude.Bytes Impl.Endian Spec.C20 Suite.C20 Proofs.C20.

Theorem C20_model_ok : forall c sz al, fits (k_ty c) (k_v c) -> fits (k_ty c) (k_x c) ->
  sz = N.of_nat (e_size (k_ty c)) -> ok_C20 c (run_C20 c sz al) = true.
Proof. exact C20_model_ok_lemma. Qed.

(* converting from native and back returns the value, for every value of every width *)
Theorem C20_roundtrip : forall t v, fits t v -> e_to_native t (e_from t v) = v.
Proof. exact roundtrip_lemma. Qed.

(* the wrapper's in-memory bytes are the value in the declared byte order *)
Theorem C20_bytes_order : forall t v, fits t v ->
  e_bytes t (e_from t v) = match e_end t with LE => enc_le (e_size t) v | BE => enc_be (e_size t) v end.
Proof. exact bytes_order_lemma. Qed.

Theorem C20_wire_digit : forall t v i, fits t v -> (i < e_size t)%nat ->
  nth i (e_bytes t (e_from t v)) 0 =
  match e_end t with LE => byte_at v i | BE => byte_at v (e_size t - 1 - i) end.
Proof. exact wire_digit_lemma. Qed.

(* comparison with a native integer is true exactly for the represented value (both impls) *)
Theorem C20_eq_iff : forall t v x, fits t v -> fits t x ->
  (e_eq_new_old t (e_from t v) x = true <-> v = x) /\
  (e_eq_old_new t x (e_from t v) = true <-> e_to_native t (e_from t v) = x).
Proof. exact eq_iff_lemma. Qed.

Theorem C20_swap_involutive : forall n v, v < 256 ^ N.of_nat n -> swap_bytes n (swap_bytes n v) = v.
Proof. exact swap_involutive_lemma. Qed.

Example C20_nonvacuous :
  fits {| e_end := BE; e_size := 4 |} 0x11223344 /\
  e_bytes {| e_end := BE; e_size := 4 |} (e_from {| e_end := BE; e_size := 4 |} 0x11223344) = [0x11; 0x22; 0x33; 0x44] /\
  e_bytes {| e_end := LE; e_size := 2 |} (e_from {| e_end := LE; e_size := 2 |} 0xbeef) = [0xef; 0xbe].
Proof. unfold fits. vm_compute. repeat split. Qed.

Print Assumptions C20_model_ok.
Print Assumptions C20_roundtrip.
Print Assumptions C20_bytes_order.
Print Assumptions C20_wire_digit.
Print Assumptions C20_eq_iff.
Print Assumptions C20_swap_involutive.
