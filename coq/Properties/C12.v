(* C12 - property theorems (statements only). *)
From VM Require Import Prelude.MachInt Prelude.Tok Impl.Owner Spec.C12 Suite.C12 Proofs.C12.

Theorem C12_raw_not_owned : forall s slot, r_owned (reg (fst (exec (Create 2 slot) s)) (nreg s)) = false.
Proof. exact raw_not_owned_lemma. Qed.

Print Assumptions C12_raw_not_owned.
