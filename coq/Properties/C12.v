(* C12 - a mapping lives exactly as long as something can still reach it.
   Statements only; proofs in Proofs/C12.v.  The machine (Impl/Owner.v) executes ANY list of
   operations create (anonymous / file / raw) / build map / insert / remove / clone / snapshot / drop of
   any handle in any order ([run l]; an operation on a handle that does not exist does nothing) - and, since the
   refusal round, also REFUSED creations (CreateRefused: refused before the mmap, or an MmapRegion built and then
   consumed by a failing GuestRegionMmap::new) and the calls that CONSUME their arguments (BuildMove = from_regions /
   from_arc_regions over the handles themselves, InsertMove = insert_region of the handle's own Arc), each of which may
   fail.  Every theorem below quantifies over ALL such histories [l : list op].
   [reaches s r]: some live handle (region Arc, map value, snapshot Arc) can reach region r.
   PARTIAL (see manifest level_note): the borrow-checker half of the property (an accessor cannot
   outlive its parent) and the kernel's munmap are not modelled. *)
From VM Require Import Prelude.MachInt Prelude.Tok Impl.Owner Spec.C12 Suite.C12 Proofs.C12.

(* the strong count of every region's Arc is exactly the number of owners that exist (handles, maps,
   snapshots, counted with multiplicity); no count ever underflows *)
Theorem C12_strong_counts : forall l r, r < nreg (run l) ->
  r_strong (reg (run l) r) = owners r (run l) /\ r_ub (reg (run l) r) = false.
Proof. exact strong_counts_lemma. Qed.

Theorem C12_owners_pos_iff_reaches : forall l r, (0 < owners r (run l))%nat <-> reaches (run l) r.
Proof. exact owners_pos_iff_reaches_lemma. Qed.

(* memory mapped by the library is mapped exactly while some owner can reach the region *)
Theorem C12_live_iff_owner : forall l r, r < nreg (run l) -> r_kind (reg (run l) r) <> 2 ->
  (r_live (reg (run l) r) = true <-> reaches (run l) r).
Proof. exact live_iff_owner_lemma. Qed.

(* no live handle points at unmapped memory *)
Theorem C12_no_dangling : forall l i h r,
  nth_error (handles (run l)) i = Some (Some h) -> In r (reach_list (run l) h) ->
  r < nreg (run l) /\ r_live (reg (run l) r) = true /\ (0 < r_strong (reg (run l) r))%nat.
Proof. exact no_dangling_lemma. Qed.

(* munmap is issued at most once per mapping, and (library-owned mappings) exactly once precisely
   when no owner is left - which is precisely when the mapping is gone *)
Theorem C12_unmapped_once : forall l r, r < nreg (run l) ->
  (r_unmaps (reg (run l) r) <= 1)%nat /\
  (r_kind (reg (run l) r) <> 2 ->
     (r_unmaps (reg (run l) r) = 1%nat <-> ~ reaches (run l) r) /\
     (r_unmaps (reg (run l) r) = 1%nat <-> r_live (reg (run l) r) = false)).
Proof. exact unmapped_once_lemma. Qed.

(* a region wrapped around an externally provided mapping is never unmapped by the library *)
Theorem C12_raw_never_unmapped : forall l r, r < nreg (run l) -> r_kind (reg (run l) r) = 2 ->
  r_owned (reg (run l) r) = false /\ r_unmaps (reg (run l) r) = O /\ r_live (reg (run l) r) = true.
Proof. exact raw_never_unmapped_lemma. Qed.

(* no leak: when every handle has been dropped, every library-owned mapping has been unmapped *)
Theorem C12_no_leak : forall l, quiescent (run l) -> forall r, r < nreg (run l) ->
  r_kind (reg (run l) r) <> 2 -> r_live (reg (run l) r) = false /\ r_unmaps (reg (run l) r) = 1%nat.
Proof. exact no_leak_lemma. Qed.

(* the machine satisfies the executable checker ok_C12 (which judges the REAL observations on every
   run) on ALL histories: every st / val / live component the machine reports is what the checker
   demands.  The proof is a simulation between the checker's reference state and the machine: the same
   region table, and handle by handle the same regions up to permutation (insert_region sorts its
   vector, the checker keeps insertion order; remove_region removes by index, the checker the first
   occurrence); snapshots through the machine's Arc table.  No side condition on the history. *)
Theorem C12_model_ok_base : forall ops, ok_C12 ops (run_C12 ops) = true.
Proof. exact C12_model_ok_lemma. Qed.

(* ... and the same over the EXTENDED wire operations (ok_C12r is the checker of suite C12: refused creations must leave
   no stray mapping and no handle, a consumed handle is gone whether the call answered Ok or Err, and after every
   operation the set of mapped regions is exactly the raw ones plus those some live handle reaches) *)
Theorem C12_model_ok : forall ops, ok_C12r ops (run_C12r ops) = true.
Proof. exact C12r_model_ok_lemma. Qed.

(* ---------------------------------------------------------------- refused operations
   [snd (exec o s) = Failed]: the library returned Err.  [consumed o]: the handles the call takes by value.
   [consumed_reaches s o r]: region r is reachable from one of them.  [run (l ++ [o]) = fst (exec o (run l))]. *)
Theorem C12_run_snoc : forall l o, run (l ++ [o]) = fst (exec o (run l)).
Proof. exact run_snoc. Qed.

(* a refused operation - from_arc_regions / from_regions / insert_region answering Err (overlap, unsorted, empty),
   remove_region answering Err, a refused creation - leaves all snapshots and all handles it did not consume as they
   were, takes the handles it consumed away, and leaves the record of EVERY region that no consumed argument reaches
   exactly as it was: same mapping state, same munmap count, same strong count (the clones it made on the way are
   dropped again) *)
Theorem C12_refused_unchanged : forall l o, snd (exec o (run l)) = Failed ->
  snaps (fst (exec o (run l))) = snaps (run l) /\
  (forall i, ~ In i (consumed o) -> nth_error (handles (fst (exec o (run l)))) i = nth_error (handles (run l)) i) /\
  (forall i, In i (consumed o) -> get_handle (fst (exec o (run l))) i = None) /\
  (forall r, r < nreg (run l) -> ~ consumed_reaches (run l) o r -> reg (fst (exec o (run l))) r = reg (run l) r).
Proof. exact refused_unchanged_lemma. Qed.

(* ... and the regions a consumed argument DID reach obey the general law in the state after the call (instance of
   C12_live_iff_owner / C12_unmapped_once at l ++ [o]): still mapped iff another owner is left, else unmapped exactly once *)
Theorem C12_refused_consumed : forall l o r, r < nreg (run (l ++ [o])) -> r_kind (reg (run (l ++ [o])) r) <> 2 ->
  (r_live (reg (run (l ++ [o])) r) = true <-> reaches (run (l ++ [o])) r) /\
  (r_unmaps (reg (run (l ++ [o])) r) <= 1)%nat /\
  (r_unmaps (reg (run (l ++ [o])) r) = 1%nat <-> ~ reaches (run (l ++ [o])) r).
Proof. exact refused_consumed_lemma. Qed.

(* a refused creation yields no handle and touches nothing that existed; refused before the mmap (v < 6) it changes
   nothing at all; an MmapRegion consumed by the failing GuestRegionMmap::new (v = 6, 7, 8: anonymous, file, raw)
   is unreachable afterwards and was unmapped exactly once - unless it wraps an external mapping, which is left alone *)
Theorem C12_refused_create : forall l v slot,
  let s := run l in let s' := fst (exec (CreateRefused v slot) s) in
  snd (exec (CreateRefused v slot) s) = Failed /\ handles s' = handles s /\ snaps s' = snaps s /\
  (forall r, r < nreg s -> reg s' r = reg s r) /\
  (v < 6 -> s' = s) /\
  (6 <= v -> nreg s' = nreg s + 1 /\ ~ reaches s' (nreg s) /\
     let x := reg s' (nreg s) in
     r_kind x = (v - 6) mod 3 /\ r_strong x = O /\
     (r_kind x <> 2 -> r_live x = false /\ r_unmaps x = 1%nat) /\
     (r_kind x = 2 -> r_live x = true /\ r_unmaps x = O)).
Proof. exact refused_create_lemma. Qed.

(* ---------------------------------------------------------------- locality ("unmapped exactly once, NOTHING ELSE touched")
   [args o]: the handles operation o is given.  An operation changes only the records of regions reachable from
   them; every other region keeps its mapping state, its munmap count and its strong count.  The munmap a Drop
   issues is `munmap(self.addr, self.size)` of the region's OWN mapping (drop_region: no input but the region's
   record - not the file offset, the flags or the caller's hugetlbfs hint), so it cannot reach a neighbour *)
Theorem C12_op_local : forall l o r, r < nreg (run l) -> ~ args_reach (run l) o r ->
  reg (run (l ++ [o])) r = reg (run l) r.
Proof. exact op_local_lemma. Qed.

Theorem C12_drop_local : forall l h r, r < nreg (run l) ->
  (forall hd, get_handle (run l) h = Some hd -> ~ In r (reach_list (run l) hd)) ->
  reg (run (l ++ [DropH h])) r = reg (run l) r.
Proof. exact drop_local_lemma. Qed.

(* (kept; subsumed by C12_model_ok) the [live] component of every observation the machine produces is
   the one the checker demands, with "reachable" read through [owners] (C12_owners_pos_iff_reaches) *)
Theorem C12_model_live_partial : forall l,
  mask_live (run l) = mask_upto (N.to_nat (nreg (run l)))
     (fun r => (r_kind (reg (run l) r) =? 2) || negb (Nat.eqb (owners r (run l)) 0)).
Proof. exact model_live_lemma. Qed.

(* non-vacuity: file region 0 and raw region 1 in one map; remove_region hands back region 1; a
   snapshot keeps region 0 alive after every other owner is gone; then everything is dropped *)
Example C12_nonvacuous :
  let l1 := [Create 1 1; Create 2 2; Build [0%nat; 1%nat]; Remove 2 131072 4096; Snap 3;
             DropH 0; DropH 2; DropH 3; DropH 1] in
  let l2 := l1 ++ [DropH 4; DropH 5] in
  r_live (reg (run l1) 0) = true /\ r_strong (reg (run l1) 0) = 1%nat /\ reaches (run l1) 0 /\
  get_handle (run l1) 4 = Some (HRegion 1) /\
  r_live (reg (run l2) 0) = false /\ r_unmaps (reg (run l2) 0) = 1%nat /\
  r_live (reg (run l2) 1) = true /\ r_unmaps (reg (run l2) 1) = O /\
  ok_C12 [WCreate 1 1; WBuild [0%nat]; WSnap 1; WDropH 0; WDropH 1; WDropH 2]
         (run_C12 [WCreate 1 1; WBuild [0%nat]; WSnap 1; WDropH 0; WDropH 1; WDropH 2]) = true.
Proof.
  cbv zeta. repeat split; try (vm_compute; reflexivity).
  exists 5%nat, (HSnap 0). split; vm_compute; [reflexivity|left; reflexivity].
Qed.

(* non-vacuity with refusals: a file region and an anonymous region in the SAME guest slot; from_regions over both
   handles answers Err (overlap) and has consumed both: both mappings are gone, exactly one munmap each; a file
   MmapRegion consumed by a failing GuestRegionMmap::new is gone too; an insert_region that fails while a map still
   holds the region leaves it mapped; at quiescence nothing is left *)
Example C12_refusals_nonvacuous :
  let l1 := [Create 1 1; Create 0 1; BuildMove true [0%nat; 1%nat]; CreateRefused 7 3; CreateRefused 0 4] in
  snd (exec (BuildMove true [0%nat; 1%nat]) (run [Create 1 1; Create 0 1])) = Failed /\
  r_live (reg (run l1) 0) = false /\ r_unmaps (reg (run l1) 0) = 1%nat /\
  r_live (reg (run l1) 1) = false /\ r_unmaps (reg (run l1) 1) = 1%nat /\
  nreg (run l1) = 3 /\ r_live (reg (run l1) 2) = false /\ r_unmaps (reg (run l1) 2) = 1%nat /\ quiescent (run l1) /\
  (let l2 := [Create 1 1; Build [0%nat]; CloneH 0; InsertMove 1 2] in
   snd (exec (InsertMove 1 2) (run [Create 1 1; Build [0%nat]; CloneH 0])) = Failed /\
   get_handle (run l2) 2 = None /\ r_live (reg (run l2) 0) = true /\ r_strong (reg (run l2) 0) = 2%nat) /\
  ok_C12r [WB (WCreate 1 1); WB (WCreate 0 1); WBuildMove true [0%nat; 1%nat]; WCreateRefused 7 3; WInsertMove 5 6]
          (run_C12r [WB (WCreate 1 1); WB (WCreate 0 1); WBuildMove true [0%nat; 1%nat]; WCreateRefused 7 3; WInsertMove 5 6]) = true.
Proof.
  cbv zeta. repeat match goal with |- _ /\ _ => split end; try (vm_compute; reflexivity).
  intros i h H. vm_compute in H. destruct i as [|[|[|i]]]; discriminate.
Qed.

Print Assumptions C12_strong_counts.
Print Assumptions C12_owners_pos_iff_reaches.
Print Assumptions C12_live_iff_owner.
Print Assumptions C12_no_dangling.
Print Assumptions C12_unmapped_once.
Print Assumptions C12_raw_never_unmapped.
Print Assumptions C12_no_leak.
Print Assumptions C12_model_ok_base.
Print Assumptions C12_model_ok.
Print Assumptions C12_run_snoc.
Print Assumptions C12_refused_unchanged.
Print Assumptions C12_refused_consumed.
Print Assumptions C12_refused_create.
Print Assumptions C12_op_local.
Print Assumptions C12_drop_local.
Print Assumptions C12_model_live_partial.
Print Assumptions C12_refusals_nonvacuous.

(* ------------------------------------------------------------------------------------------------------------
   Xen flavour (feature `xen`).  Machine: Impl/OwnerXen.v ([yrun m l], same Arc / Vec / snapshot operations as above
   over the Xen object kinds: 0 MmapXenUnix, 1 MmapXenForeign, 2 MmapXenGrant mapped in advance - each owning an
   MmapUnix whose Drop is munmap, the grant's Drop additionally issuing the gntdev unmap request - and 3 MmapXenGrant
   mapped on demand, which owns nothing) PLUS guarded accesses [YAccess] (read / write / ptr_guard through a region, a
   map or a snapshot) anywhere in the history.  [m] is the build profile; proofs in Proofs/C12xen.v.
   y_live / y_unmaps: the region's own memory mapping and the munmap calls for it; y_gnt / y_gunmaps: its grant mapping
   in the device and the unmap requests for it. *)
From VM Require Import Prelude.Outcome Impl.MmapBuild Impl.Xen Impl.OwnerXen Spec.C12xen Suite.C12xen Proofs.C12xen Proofs.C12xenLink.

Theorem C12x_strong_counts : forall m l r, r < ynreg (yrun m l) ->
  y_strong (yreg (yrun m l) r) = yowners r (yrun m l) /\ y_ub (yreg (yrun m l) r) = false.
Proof. exact ystrong_counts_lemma. Qed.

(* unix / foreign / advance-mapped grant regions: mapped exactly while some owner can reach the region *)
Theorem C12x_live_iff_owner : forall m l r, r < ynreg (yrun m l) -> y_kind (yreg (yrun m l) r) <> 3 ->
  (y_live (yreg (yrun m l) r) = true <-> yreaches (yrun m l) r).
Proof. exact ylive_iff_owner_lemma. Qed.

(* an on-demand grant region never owns a mapping or a grant, and nothing is ever unmapped on its behalf by a drop *)
Theorem C12x_ondemand_owns_nothing : forall m l r, r < ynreg (yrun m l) -> y_kind (yreg (yrun m l) r) = 3 ->
  y_owned (yreg (yrun m l) r) = false /\ y_live (yreg (yrun m l) r) = false /\ y_unmaps (yreg (yrun m l) r) = O /\
  y_gnt (yreg (yrun m l) r) = false /\ y_gunmaps (yreg (yrun m l) r) = O.
Proof. exact yondemand_owns_nothing_lemma. Qed.

(* no live handle reaches a region whose mapping (kinds 0-2) or device grant (kind 2) is gone or was ever unmapped *)
Theorem C12x_no_dangling : forall m l i h r,
  nth_error (yhandles (yrun m l)) i = Some (Some h) -> In r (yreach_list (yrun m l) h) ->
  r < ynreg (yrun m l) /\ (0 < y_strong (yreg (yrun m l) r))%nat /\
  (y_kind (yreg (yrun m l) r) <> 3 -> y_live (yreg (yrun m l) r) = true /\ y_unmaps (yreg (yrun m l) r) = O) /\
  (y_kind (yreg (yrun m l) r) = 2 -> y_gnt (yreg (yrun m l) r) = true /\ y_gunmaps (yreg (yrun m l) r) = O).
Proof. exact yno_dangling_lemma. Qed.

(* munmap and the grant unmap request are each issued at most once per region, and exactly once precisely when no
   owner is left; regions that are not advance-mapped grants never see a grant request *)
Theorem C12x_unmapped_once : forall m l r, r < ynreg (yrun m l) ->
  (y_unmaps (yreg (yrun m l) r) <= 1)%nat /\ (y_gunmaps (yreg (yrun m l) r) <= 1)%nat /\
  (y_kind (yreg (yrun m l) r) <> 3 ->
     (y_unmaps (yreg (yrun m l) r) = 1%nat <-> ~ yreaches (yrun m l) r) /\
     (y_unmaps (yreg (yrun m l) r) = 1%nat <-> y_live (yreg (yrun m l) r) = false)) /\
  (y_kind (yreg (yrun m l) r) = 2 ->
     (y_gunmaps (yreg (yrun m l) r) = 1%nat <-> ~ yreaches (yrun m l) r) /\
     (y_gunmaps (yreg (yrun m l) r) = 1%nat <-> y_gnt (yreg (yrun m l) r) = false)) /\
  (y_kind (yreg (yrun m l) r) <> 2 -> y_gnt (yreg (yrun m l) r) = false /\ y_gunmaps (yreg (yrun m l) r) = O).
Proof. exact yunmapped_once_lemma. Qed.

(* no leak: when every handle has been dropped nothing is left mapped and no grant is left in the device *)
Theorem C12x_no_leak : forall m l, yquiescent (yrun m l) -> forall r, r < ynreg (yrun m l) ->
  (y_kind (yreg (yrun m l) r) <> 3 -> y_live (yreg (yrun m l) r) = false /\ y_unmaps (yreg (yrun m l) r) = 1%nat) /\
  y_gnt (yreg (yrun m l) r) = false /\
  (y_kind (yreg (yrun m l) r) = 2 -> y_gunmaps (yreg (yrun m l) r) = 1%nat).
Proof. exact yno_leak_lemma. Qed.

(* ACCESSES.  A guarded access through any handle changes no region record, handle or snapshot - in particular it
   never changes the live set (the guard of an advance-mapped region is MmapXenSlice::raw; the clone of the grant a
   window carries owns no mapping) ... *)
Theorem C12x_access_changes_nothing : forall m s h sel off len ak, fst (yexec m (YAccess h sel off len ak) s) = s.
Proof. exact yaccess_state_lemma. Qed.

(* ... and whatever it asks of the device (event list of Impl/Xen.v's run_op on the region) leaves the device's live
   set and the mmap balance as they were: an on-demand access maps and unmaps its OWN window only *)
Theorem C12x_access_released : forall m s h sel off len ak st,
  live_after st (yevs m (YAccess h sel off len ak) s) = st /\ mm_balance (yevs m (YAccess h sel off len ak) s) = 0%Z.
Proof. exact yaccess_released_lemma. Qed.

(* an access to a region mapped in advance asks nothing at all of the device *)
Theorem C12x_access_advance_silent : forall m s r off len ak g,
  yxregion m (y_kind (yreg s r)) r (y_slot (yreg s r)) = Some g -> on_demand g = false ->
  fst (yaccess1 m s r off len ak) = [].
Proof. exact yaccess1_advance. Qed.

(* non-vacuity: an advance-mapped grant region 0 and an on-demand region 1 in one map; accesses through the map;
   the map keeps both alive after the creating handles are gone; then everything is dropped *)
Example C12x_nonvacuous :
  let l1 := [YCreate 2 1; YCreate 3 2; YBuild [0%nat; 1%nat]; YAccess 2 1 100 8 0; YAccess 2 2 2040 8 1;
             YDropH 0; YDropH 1; YAccess 2 1 16 4 1] in
  let l2 := l1 ++ [YDropH 2] in
  y_live (yreg (yrun Debug l1) 0) = true /\ y_gnt (yreg (yrun Debug l1) 0) = true /\ yreaches (yrun Debug l1) 0 /\
  y_live (yreg (yrun Debug l1) 1) = false /\ y_strong (yreg (yrun Debug l1) 1) = 1%nat /\
  y_live (yreg (yrun Debug l2) 0) = false /\ y_unmaps (yreg (yrun Debug l2) 0) = 1%nat /\
  y_gnt (yreg (yrun Debug l2) 0) = false /\ y_gunmaps (yreg (yrun Debug l2) 0) = 1%nat /\
  y_unmaps (yreg (yrun Debug l2) 1) = O /\
  (* the access to the advance-mapped region is silent; the one to the on-demand region opens and closes a window *)
  yevs Debug (YAccess 2 1 100 8 0) (yrun Debug [YCreate 2 1; YCreate 3 2; YBuild [0%nat; 1%nat]]) = [] /\
  length (yevs Debug (YAccess 2 2 2040 8 1) (yrun Debug [YCreate 2 1; YCreate 3 2; YBuild [0%nat; 1%nat]])) = 4%nat.
Proof.
  cbv zeta. repeat split; try (vm_compute; reflexivity).
  exists 2%nat, (HMap [0; 1]). split; vm_compute; [reflexivity|left; reflexivity].
Qed.

(* the machine's account of the Xen objects agrees with the transcription of the constructors and Drop impls in
   Impl/Xen.v (xen_from_range, xen_drop - the model the C15 / C17 packages tie to src/mmap/xen.rs) for EVERY region the
   machine can create: kind < 4, fewer than 100 regions, slot < 16 (the bounds of [yexec (YCreate ..)] and of the
   harness), both build profiles - a finite domain of 12800 combinations checked by evaluation ([ytab_ok]: built; takes
   windows on demand iff kind 3; owns a mapping iff kind <> 3; one map request for its whole range iff kind 2; Drop =
   one munmap iff kind <> 3, one unmap request with the same index and count iff kind 2) *)
Theorem C12x_objects_match_Xen : forall m kind id slot, kind < 4 -> id < 100 -> slot < 16 -> ytab_ok m kind id slot = true.
Proof. exact objects_match_Xen_lemma. Qed.

(* FULL STATEMENT NOT PROVED:  forall m ops, ok_C12x ops (run_C12x m ops) = true  (for well-formed ops).
   Proved: the live and gnt components of every observation the machine produces are the ones the checker demands,
   with "reachable" read through the owner count; missing (as for C12_model_ok above): the simulation between the
   checker's per-handle region lists and the machine's for st / val, and the event discipline of ok_C12x, which are
   tied to the machine by evaluation on every generated case only. *)
Theorem C12x_model_live_partial : forall m l,
  ymask_live (yrun m l) = mask_upto (N.to_nat (ynreg (yrun m l)))
     (fun r => negb (y_kind (yreg (yrun m l) r) =? 3) && negb (Nat.eqb (yowners r (yrun m l)) 0)) /\
  ymask_gnt (yrun m l) = mask_upto (N.to_nat (ynreg (yrun m l)))
     (fun r => (y_kind (yreg (yrun m l) r) =? 2) && negb (Nat.eqb (yowners r (yrun m l)) 0)).
Proof. exact ymodel_live_lemma. Qed.

Print Assumptions C12x_strong_counts.
Print Assumptions C12x_live_iff_owner.
Print Assumptions C12x_ondemand_owns_nothing.
Print Assumptions C12x_no_dangling.
Print Assumptions C12x_unmapped_once.
Print Assumptions C12x_no_leak.
Print Assumptions C12x_access_changes_nothing.
Print Assumptions C12x_access_released.
Print Assumptions C12x_access_advance_silent.
Print Assumptions C12x_objects_match_Xen.
Print Assumptions C12x_model_live_partial.
