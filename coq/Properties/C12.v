(* C12 - a mapping lives exactly as long as something can still reach it.
   Statements only; proofs in Proofs/C12.v.  The machine (Impl/Owner.v) executes ANY list of
   operations create (anonymous / file / raw) / build map / insert / remove / clone / snapshot / drop of
   any handle in any order ([run l]; an operation on a handle that does not exist does nothing).
   [reaches s r]: some live handle (region Arc, map value, snapshot Arc) can reach region r.
   PARTIAL (see manifest level_note): the borrow-checker half of the property (an accessor cannot
   outlive its parent) and the kernel's munmap are not modelled. *)
From VM Require Import Prelude.MachInt Prelude.Tok Impl.Owner Spec.C12 Suite.C12 Proofs.C12.

(* the strong count of every region's Arc is exactly the number of owners that exist (handles, maps,
   snapshots, counted with multiplicity); no count ever underflows *)
Theorem C12_strong_counts : forall l r, r < nreg (run l) ->
  r_strong (reg (run l) r) = owners r (run l) /\ r_ub (reg (run l) r) = false.
Proof. exact strong_counts_lemma. Qed.

Theorem C12_owners_pos_iff_reaches : forall l r, (0 < owners r (run l))%nat <-> reaches (run l) r.
Proof. exact owners_pos_iff_reaches_lemma. Qed.

(* memory mapped by the library is mapped exactly while some owner can reach the region *)
Theorem C12_live_iff_owner : forall l r, r < nreg (run l) -> r_kind (reg (run l) r) <> 2 ->
  (r_live (reg (run l) r) = true <-> reaches (run l) r).
Proof. exact live_iff_owner_lemma. Qed.

(* no live handle points at unmapped memory *)
Theorem C12_no_dangling : forall l i h r,
  nth_error (handles (run l)) i = Some (Some h) -> In r (reach_list (run l) h) ->
  r < nreg (run l) /\ r_live (reg (run l) r) = true /\ (0 < r_strong (reg (run l) r))%nat.
Proof. exact no_dangling_lemma. Qed.

(* munmap is issued at most once per mapping, and (library-owned mappings) exactly once precisely
   when no owner is left - which is precisely when the mapping is gone *)
Theorem C12_unmapped_once : forall l r, r < nreg (run l) ->
  (r_unmaps (reg (run l) r) <= 1)%nat /\
  (r_kind (reg (run l) r) <> 2 ->
     (r_unmaps (reg (run l) r) = 1%nat <-> ~ reaches (run l) r) /\
     (r_unmaps (reg (run l) r) = 1%nat <-> r_live (reg (run l) r) = false)).
Proof. exact unmapped_once_lemma. Qed.

(* a region wrapped around an externally provided mapping is never unmapped by the library *)
Theorem C12_raw_never_unmapped : forall l r, r < nreg (run l) -> r_kind (reg (run l) r) = 2 ->
  r_owned (reg (run l) r) = false /\ r_unmaps (reg (run l) r) = O /\ r_live (reg (run l) r) = true.
Proof. exact raw_never_unmapped_lemma. Qed.

(* no leak: when every handle has been dropped, every library-owned mapping has been unmapped *)
Theorem C12_no_leak : forall l, quiescent (run l) -> forall r, r < nreg (run l) ->
  r_kind (reg (run l) r) <> 2 -> r_live (reg (run l) r) = false /\ r_unmaps (reg (run l) r) = 1%nat.
Proof. exact no_leak_lemma. Qed.

(* the machine satisfies the executable checker ok_C12 (which judges the REAL observations on every
   run) on ALL histories: every st / val / live component the machine reports is what the checker
   demands.  The proof is a simulation between the checker's reference state and the machine: the same
   region table, and handle by handle the same regions up to permutation (insert_region sorts its
   vector, the checker keeps insertion order; remove_region removes by index, the checker the first
   occurrence); snapshots through the machine's Arc table.  No side condition on the history. *)
Theorem C12_model_ok : forall ops, ok_C12 ops (run_C12 ops) = true.
Proof. exact C12_model_ok_lemma. Qed.

(* (kept; subsumed by C12_model_ok) the [live] component of every observation the machine produces is
   the one the checker demands, with "reachable" read through [owners] (C12_owners_pos_iff_reaches) *)
Theorem C12_model_live_partial : forall l,
  mask_live (run l) = mask_upto (N.to_nat (nreg (run l)))
     (fun r => (r_kind (reg (run l) r) =? 2) || negb (Nat.eqb (owners r (run l)) 0)).
Proof. exact model_live_lemma. Qed.

(* non-vacuity: file region 0 and raw region 1 in one map; remove_region hands back region 1; a
   snapshot keeps region 0 alive after every other owner is gone; then everything is dropped *)
Example C12_nonvacuous :
  let l1 := [Create 1 1; Create 2 2; Build [0%nat; 1%nat]; Remove 2 131072 4096; Snap 3;
             DropH 0; DropH 2; DropH 3; DropH 1] in
  let l2 := l1 ++ [DropH 4; DropH 5] in
  r_live (reg (run l1) 0) = true /\ r_strong (reg (run l1) 0) = 1%nat /\ reaches (run l1) 0 /\
  get_handle (run l1) 4 = Some (HRegion 1) /\
  r_live (reg (run l2) 0) = false /\ r_unmaps (reg (run l2) 0) = 1%nat /\
  r_live (reg (run l2) 1) = true /\ r_unmaps (reg (run l2) 1) = O /\
  ok_C12 [WCreate 1 1; WBuild [0%nat]; WSnap 1; WDropH 0; WDropH 1; WDropH 2]
         (run_C12 [WCreate 1 1; WBuild [0%nat]; WSnap 1; WDropH 0; WDropH 1; WDropH 2]) = true.
Proof.
  cbv zeta. repeat split; try (vm_compute; reflexivity).
  exists 5%nat, (HSnap 0). split; vm_compute; [reflexivity|left; reflexivity].
Qed.

Print Assumptions C12_strong_counts.
Print Assumptions C12_owners_pos_iff_reaches.
Print Assumptions C12_live_iff_owner.
Print Assumptions C12_no_dangling.
Print Assumptions C12_unmapped_once.
Print Assumptions C12_raw_never_unmapped.
Print Assumptions C12_no_leak.
Print Assumptions C12_model_ok.
Print Assumptions C12_model_live_partial.
