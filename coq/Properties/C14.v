(* C14 - stream transfers lose or duplicate nothing under short I/O, EINTR and errors.
   Statements only.  A case c fixes the target (VolatileSlice / GuestRegionMmap / GuestMemoryMmap with
   any number of regions), the memory contents, start address, count, operation and the SCRIPT of the
   stream: a list of per-call behaviours (Full | Short k | Zero | Eintr | HardErr) of ANY length,
   after which the stream answers Zero.  [exec14 c] runs the transcription of the vm-memory code
   (Impl/Io.v, Impl/IoGuest.v) with fuel length(script)+2 and yields the final stream (with its call
   log k_done), the final host memory and the result code (rk, a, b):
     rk 0 Ok(a)  1 Ok(())  2 UnexpectedEof  3 WriteZero  4 Interrupted  5 other io error  6 bounds
        7 InvalidGuestAddress  8 PartialBuffer{a,b}  9 CallbackOutOfRange  10 GuestAddressOverflow.
   [moved_of c s] = bytes the reader gave out / the writer accepted; [idx_of t a] = host index of
   the byte at target address a. *)
From VM Require Import Prelude.MachInt Prelude.Outcome Prelude.C1314List Impl.Io Impl.IoGuest Spec.C14 Suite.C14 Proofs.C14.
From VM Require Impl.Guest Proofs.LinkIoGuest.
From VM Require Import Impl.Std Spec.C14own Suite.C14own Proofs.C14own.

(* the model satisfies the executable checker on every well-formed case *)
Theorem C14_model_ok : forall c, wf14 c = true -> ok_C14 c (run_C14 c) = true.
Proof. exact C14_model_ok_lemma. Qed.

(* never out of fuel, never a panic: retry_eintr!, the exact loops and try_access terminate on every script *)
Theorem C14_terminates : forall c, wf14 c = true -> exists s m rc, exec14 c = Val ((s, m), rc).
Proof. exact terminates_lemma. Qed.

(* the calls the stream received are exactly a prefix of (script ++ Zero Zero ...) *)
Theorem C14_calls_are_script : forall c s m rc, wf14 c = true -> exec14 c = Val ((s, m), rc) ->
  k_done s = calls_made (c_script c) (nlen (k_done s)).
Proof. exact calls_are_script_lemma. Qed.

(* an interruption is never reported and is never the last call (it is always retried) *)
Theorem C14_eintr_never_reported : forall c s m rk a b, wf14 c = true -> exec14 c = Val ((s, m), (rk, a, b)) ->
  rk <> 4 /\ last (k_done s) Zero <> Eintr.
Proof. exact eintr_never_reported_lemma. Qed.

(* a hard error is reported (and nothing else is reported as one); it ends the transfer *)
Theorem C14_harderr_reported : forall c s m rk a b, wf14 c = true -> exec14 c = Val ((s, m), (rk, a, b)) ->
  (In HardErr (k_done s) <-> rk = 5)
  /\ (rk = 5 -> last (k_done s) Zero = HardErr /\ ~ In HardErr (removelast (k_done s))).
Proof. exact harderr_reported_lemma. Qed.

(* reads: the k bytes consumed from the reader are the first k source bytes, byte i is stored at
   address addr+i (so none dropped, none stored twice, in order), every other host byte is unchanged *)
Theorem C14_consumed_is_stored : forall c s m rc, wf14 c = true -> is_read (c_op c) = true ->
  exec14 c = Val ((s, m), rc) ->
  let k := moved_of c s in
  k_src s = ndrop k (c_src c) /\ k <= nlen (c_src c) /\ nlen m = nlen (c_mem c)
  /\ (forall i, i < k -> exists j, idx_of (c_target c) (c_addr c + i) = Some j /\
                                nth_error m (N.to_nat j) = nth_error (c_src c) (N.to_nat i))
  /\ (forall j, (forall i, i < k -> idx_of (c_target c) (c_addr c + i) <> Some j) ->
                nth_error m (N.to_nat j) = nth_error (c_mem c) (N.to_nat j)).
Proof. exact consumed_is_stored_lemma. Qed.

(* writes: byte i handed to the writer is the guest byte at addr+i; memory is unchanged *)
Theorem C14_handed_is_next : forall c s m rc, wf14 c = true -> is_read (c_op c) = false ->
  exec14 c = Val ((s, m), rc) ->
  let k := moved_of c s in
  m = c_mem c /\ nlen (k_sink s) = k
  /\ (forall i, i < k -> exists j, idx_of (c_target c) (c_addr c + i) = Some j /\
                                nth_error (k_sink s) (N.to_nat i) = nth_error (c_mem c) (N.to_nat j)).
Proof. exact handed_is_next_lemma. Qed.

(* exact forms never answer Ok(n); without a hard error, and for count > 0 or a start address inside the
   target, they succeed exactly when the full count was transferred *)
Theorem C14_exact_ok_iff_full : forall c s m rk a b, wf14 c = true -> is_exact (c_op c) = true ->
  exec14 c = Val ((s, m), (rk, a, b)) ->
  rk <> 0 /\ (~ In HardErr (k_done s) -> (0 < c_count c \/ idx_of (c_target c) (c_addr c) <> None) ->
              (rk = 1 <-> moved_of c s = c_count c)).
Proof. exact exact_ok_iff_full_lemma. Qed.

(* up-to forms: Ok(n) has n = bytes actually moved *)
Theorem C14_upto_returns_moved : forall c s m rk a b, wf14 c = true -> is_exact (c_op c) = false ->
  exec14 c = Val ((s, m), (rk, a, b)) -> rk <> 1 /\ (rk = 0 -> a = moved_of c s).
Proof. exact upto_returns_moved_lemma. Qed.

(* no operation moves more than the requested count *)
Theorem C14_moved_le_count : forall c s m rc, wf14 c = true -> exec14 c = Val ((s, m), rc) ->
  moved_of c s <= c_count c.
Proof. exact moved_le_count_lemma. Qed.

(* every operation: host bytes outside the transferred prefix are unchanged *)
Theorem C14_frame : forall c s m rc, wf14 c = true -> exec14 c = Val ((s, m), rc) ->
  forall j, (forall i, i < moved_of c s -> idx_of (c_target c) (c_addr c + i) <> Some j) ->
            nth_error m (N.to_nat j) = nth_error (c_mem c) (N.to_nat j).
Proof. exact frame_lemma. Qed.

(* non-vacuity: a 9-byte exact read at 0x1002 across two adjacent regions with a script mixing
   interruptions and short reads succeeds and stores the 9 bytes; the same with a hard error stops *)
Example C14_nonvacuous :
  let L := [ {| g_start := 4096; g_len := 6; g_moff := 0 |}; {| g_start := 4102; g_len := 5; g_moff := 6 |} ] in
  let c := {| c_mode := Debug; c_target := TGuest L; c_mem := repeat 0 11; c_addr := 4098; c_count := 9;
              c_op := RdExact; c_script := [Eintr; Short 3; Eintr; Eintr; Short 1; Full; Full; HardErr];
              c_src := [1;2;3;4;5;6;7;8;9;10;11;12] |} in
  wf14 c = true /\ o_rk (run_C14 c) = 1 /\ o_mem (run_C14 c) = [0;0;1;2;3;4;5;6;7;8;9] /\ o_calls (run_C14 c) = 6
  /\ o_rk (run_C14 {| c_mode := Debug; c_target := TGuest L; c_mem := repeat 0 11; c_addr := 4098; c_count := 9;
                      c_op := RdExact; c_script := [Short 3; HardErr; Full]; c_src := [1;2;3;4;5;6;7;8;9] |}) = 5.
Proof. vm_compute. repeat split. Qed.

Print Assumptions C14_model_ok.
Print Assumptions C14_terminates.
Print Assumptions C14_calls_are_script.
Print Assumptions C14_eintr_never_reported.
Print Assumptions C14_harderr_reported.
Print Assumptions C14_consumed_is_stored.
Print Assumptions C14_handed_is_next.
Print Assumptions C14_exact_ok_iff_full.
Print Assumptions C14_upto_returns_moved.
Print Assumptions C14_moved_le_count.
Print Assumptions C14_frame.

(* ---------------------------------------------------------------------------------------------
   LINK to C03 (Proofs/LinkIoGuest.v).  The guest-level theorems above are about IoGuest.v's OWN
   transcription of try_access and of the stream methods (one host byte list, regions as windows).
   C03 verifies Guest.v's transcription (one byte list per region, abstract find_region).  They
   are the same functions:  [LinkIoGuest.erase] forgets only the source-line number carried by a
   Panic (the two files cite different revisions of guest_memory.rs), [tr_res] maps the error
   classes (GIo e |-> EIOError: C03 does not model the io::ErrorKind), [lay L] is the (start, len)
   layout of the regions, [M_of L m] the per-region byte lists cut out of the host byte list. *)

(* for EVERY callback, fuel, address, count and state: IoGuest.try_access is Guest.try_access over
   the linear find_region, the state being (stream, host memory) and the callback re-indexed by
   region number *)
Theorem C14_try_access_is_C03s : forall (S : Type) md L count addr (f : cbT S) fuel cur total s m,
  LinkIoGuest.erase (omap LinkIoGuest.trx (try_access md fuel L count addr f cur total s m)) =
  LinkIoGuest.erase (Guest.try_access Guest.find_lin md (LinkIoGuest.lay L) count (LinkIoGuest.cb_of L f) fuel (s, m) cur total).
Proof. exact @LinkIoGuest.try_access_same. Qed.

(* read_volatile_from: for every in-memory source handing out at most `chunk` bytes per call
   ([chunk_reader]), on every well-formed guest target of C14 ([wfmem] = the TGuest clause of wf14),
   running IoGuest's transcription (VolatileSlice offset / subslice checks, retry_eintr!, region
   delegation, try_access) and cutting the final host memory into regions gives exactly the result
   of Guest.gm_read_volatile_from - the function C03_read_volatile_from_refines_flat is about *)
Theorem C14_read_volatile_from_is_C03s : forall (S : Type) chunk (srcof : S -> list N) (call : callT S),
  LinkIoGuest.chunk_reader chunk srcof call ->
  forall L md addr s m count, LinkIoGuest.wfmem L m ->
  LinkIoGuest.erase (omap (fun x => (LinkIoGuest.abs_rd srcof L (fst x), LinkIoGuest.tr_res (snd x)))
      (gm_read_volatile_from md (Datatypes.S (Datatypes.S (length L + length (srcof s)))) call L addr s m count)) =
  LinkIoGuest.erase (Guest.gm_read_volatile_from Guest.find_lin md (LinkIoGuest.M_of L m) addr chunk (srcof s) count).
Proof. exact @LinkIoGuest.read_volatile_from_same. Qed.

(* the real `impl ReadVolatile for &[u8]` (Impl/Io.v, verified by C13) is such a source *)
Theorem C14_slice_source_is_chunk_reader : LinkIoGuest.chunk_reader W64 slice_rem slice_read_volatile.
Proof. exact LinkIoGuest.slice_is_chunk_reader. Qed.

(* the abstraction used: a write inside region i's window of the host byte list is Guest.v's
   write_at on region i's own byte list and is invisible to every other region *)
Theorem C14_host_memory_abstraction : forall L m i st bs, LinkIoGuest.wfmem L m -> (i < length L)%nat ->
  st + nlen bs <= g_len (nth i L LinkIoGuest.dregion) ->
  LinkIoGuest.M_of L (mem_write m (g_moff (nth i L LinkIoGuest.dregion) + st) bs) =
  Guest.upd_nth (LinkIoGuest.M_of L m) i
    (Guest.set_bytes (nth i (LinkIoGuest.M_of L m) Guest.dummy)
       (Guest.write_at (Guest.rbytes (nth i (LinkIoGuest.M_of L m) Guest.dummy)) (N.to_nat st) bs)).
Proof. exact LinkIoGuest.M_of_write. Qed.

(* ... the exact form likewise (same PartialBuffer wrapper on both sides) *)
Theorem C14_read_exact_volatile_from_is_C03s : forall (S : Type) chunk (srcof : S -> list N) (call : callT S),
  LinkIoGuest.chunk_reader chunk srcof call ->
  forall L md addr s m count, LinkIoGuest.wfmem L m ->
  LinkIoGuest.erase (omap (fun x => (LinkIoGuest.abs_rd srcof L (fst x), LinkIoGuest.tr_res (snd x)))
      (gm_read_exact_volatile_from md (Datatypes.S (Datatypes.S (length L + length (srcof s)))) call L addr s m count)) =
  LinkIoGuest.erase (Guest.gm_read_exact_volatile_from Guest.find_lin md (LinkIoGuest.M_of L m) addr chunk (srcof s) count).
Proof. exact @LinkIoGuest.read_exact_volatile_from_same. Qed.

(* write_volatile_to / write_all_volatile_to: for every in-memory sink that accepts each buffer
   completely ([all_writer], what Guest.v assumes of its Vec<u8> sink), IoGuest's transcription
   (VolatileSlice get_slice check, the write_all_volatile loop with retry_eintr!, region delegation,
   try_access) leaves the host memory alone and produces exactly the sink contents and result of
   Guest.gm_write_volatile_to / gm_write_all_volatile_to on the per-region byte lists *)
Theorem C14_write_volatile_to_is_C03s : forall (S : Type) (sinkof : S -> list N) (call : callT S),
  LinkIoGuest.all_writer sinkof call ->
  forall L m, LinkIoGuest.wfmem L m -> forall md addr s count,
  LinkIoGuest.erase (omap (fun x => (sinkof (fst (fst x)), LinkIoGuest.tr_res (snd x)))
      (gm_write_volatile_to md (Datatypes.S (length L)) call L addr s m count)) =
  LinkIoGuest.erase (Guest.gm_write_volatile_to Guest.find_lin md (LinkIoGuest.M_of L m) addr (sinkof s) count).
Proof. exact @LinkIoGuest.write_volatile_to_same. Qed.

Theorem C14_write_all_volatile_to_is_C03s : forall (S : Type) (sinkof : S -> list N) (call : callT S),
  LinkIoGuest.all_writer sinkof call ->
  forall L m, LinkIoGuest.wfmem L m -> forall md addr s count,
  LinkIoGuest.erase (omap (fun x => (sinkof (fst (fst x)), LinkIoGuest.tr_res (snd x)))
      (gm_write_all_volatile_to md (Datatypes.S (length L)) call L addr s m count)) =
  LinkIoGuest.erase (Guest.gm_write_all_volatile_to Guest.find_lin md (LinkIoGuest.M_of L m) addr (sinkof s) count).
Proof. exact @LinkIoGuest.write_all_volatile_to_same. Qed.

(* the real `impl WriteVolatile for Vec<u8>` (Impl/Io.v) is such a sink in builds without overflow
   checks (with them it additionally panics if the Vec would reach 2^64 bytes) *)
Theorem C14_vec_sink_is_all_writer : LinkIoGuest.all_writer s_data (vec_write_volatile Release).
Proof. exact LinkIoGuest.vec_is_all_writer. Qed.

Example C14_link_nonvacuous :
  let L := [ {| g_start := 4096; g_len := 6; g_moff := 0 |}; {| g_start := 4102; g_len := 5; g_moff := 6 |} ] in
  let st := {| s_data := [1;2;3;4;5;6;7;8;9;10;11;12]; s_pos := 1; s_out := [] |} in
  LinkIoGuest.wfmem L (repeat 0 11) /\
  omap (fun x => (LinkIoGuest.abs_rd slice_rem L (fst x), LinkIoGuest.tr_res (snd x)))
       (gm_read_volatile_from Debug 15 slice_read_volatile L 4098 st (repeat 0 11) 7) =
  Val (([ {| Guest.rstart := 4096; Guest.rbytes := [0;0;2;3;4;5] |}; {| Guest.rstart := 4102; Guest.rbytes := [6;7;8;0;0] |} ],
        [9;10;11;12]), inl 7) /\
  Guest.gm_read_volatile_from Guest.find_lin Debug (LinkIoGuest.M_of L (repeat 0 11)) 4098 W64 (slice_rem st) 7 =
  Val (([ {| Guest.rstart := 4096; Guest.rbytes := [0;0;2;3;4;5] |}; {| Guest.rstart := 4102; Guest.rbytes := [6;7;8;0;0] |} ],
        [9;10;11;12]), inl 7).
Proof.
  cbv zeta. split; [|split].
  - unfold LinkIoGuest.wfmem. split; [vm_compute; reflexivity|]. split; [vm_compute; reflexivity|].
    rewrite W64_val. vm_compute. reflexivity.
  - vm_compute. reflexivity.
  - rewrite W64_val. vm_compute. reflexivity.
Qed.

Print Assumptions C14_try_access_is_C03s.
Print Assumptions C14_read_volatile_from_is_C03s.
Print Assumptions C14_slice_source_is_chunk_reader.
Print Assumptions C14_host_memory_abstraction.
Print Assumptions C14_read_exact_volatile_from_is_C03s.
Print Assumptions C14_write_volatile_to_is_C03s.
Print Assumptions C14_write_all_volatile_to_is_C03s.
Print Assumptions C14_vec_sink_is_all_writer.

(* PROGRESS of the exact forms (the clause [progress14] of the checker, without the boolean): an exact form that did
   not succeed and met no hard error (for count > 0 or a start address inside the target) stopped for a CAUSE - the
   mapped range ended exactly where the transfer stopped, or the request was refused before any call because its range
   does not lie inside the target, or the last call answered zero bytes (Zero / Short 0 - also what the stream answers
   after its script) or the reader's source is exhausted.  It never gives up while the stream still delivers. *)
Theorem C14_exact_gives_up_only_for_cause : forall c s' m' rk a b, wf14 c = true -> is_exact (c_op c) = true ->
  exec14 c = Val ((s', m'), (rk, a, b)) -> rk <> 1 -> rk <> 5 ->
  (0 < c_count c \/ idx_of (c_target c) (c_addr c) <> None) ->
  idx_of (c_target c) (c_addr c + moved_of c s') = None
  \/ (s' = stream0 c /\ fully_mapped (c_target c) (c_mem c) (c_addr c) (c_count c) = false)
  \/ ((exists d b, k_done s' = d ++ [b] /\ zeroish b = true) \/ (is_read (c_op c) = true /\ k_src s' = [])).
Proof. exact exec_why. Qed.
Print Assumptions C14_exact_gives_up_only_for_cause.

(* ---------------------------------------------------------------------------------------------
   THE CRATE'S OWN ENDPOINTS (suite C14own; Spec/C14own.v, Suite/C14own.v, Proofs/C14own.v).
   The same entry points - VolatileSlice / GuestRegionMmap / GuestMemoryMmap read_volatile_from,
   read_exact_volatile_from, write_volatile_to, write_all_volatile_to - driven with the stream endpoints the crate
   itself provides, as modelled in Impl/Io.v: &[u8], Cursor<T> (position anywhere, also past the end), &mut [u8],
   Vec<u8>, and REAL descriptors (regular file, byte queue) whose read(2) / write(2) calls follow a script of ANY
   length (FFull | FShort k | FZero | FEintr | FErr, then the real call for ever).  The up-to forms make one
   read_volatile / write_volatile call inside retry_eintr!; the exact forms call the ENDPOINT's read_exact_volatile /
   write_all_volatile - specialised for &[u8], Cursor, &mut [u8], the provided loops for Vec<u8> and descriptors.
   [exec14own c] runs the model with fuel length(script) + length(memory) + 2; [logof_c c f] is the list of
   behaviours of the calls the endpoint received (the script, then Full); [src_now] / [sink_now] read the reader's
   remaining bytes / the bytes the writer gained off the endpoint's final state.  The judge is the unchanged [ok_C14]. *)

(* the model satisfies the executable checker on every well-formed case: any script, memory, layout, count *)
Theorem C14own_model_ok : forall c, wf14own c = true -> ok_C14own c (run_C14own c) = true.
Proof. exact C14own_model_ok_lemma. Qed.

(* never out of fuel, never a panic (Vec length, Cursor position, window arithmetic, try_access all stay in range) *)
Theorem C14own_terminates : forall c, wf14own c = true -> exists f m rc, exec14own c = Val ((f, m), rc).
Proof. exact C14own_terminates_lemma. Qed.

(* an interruption is never reported ... *)
Theorem C14own_eintr_never_reported : forall c f m rk a b, wf14own c = true ->
  exec14own c = Val ((f, m), (rk, a, b)) -> rk <> 4.
Proof. exact C14own_eintr_never_reported_lemma. Qed.

(* ... and never the last call: it is always retried *)
Theorem C14own_eintr_retried : forall c f m rk a b, wf14own c = true ->
  exec14own c = Val ((f, m), (rk, a, b)) -> last (logof_c c f) Zero <> Eintr.
Proof. exact C14own_eintr_retried_lemma. Qed.

(* a hard error is reported, and nothing else is reported as one *)
Theorem C14own_harderr_reported : forall c f m rk a b, wf14own c = true ->
  exec14own c = Val ((f, m), (rk, a, b)) -> (In HardErr (logof_c c f) <-> rk = 5).
Proof. exact C14own_harderr_reported_lemma. Qed.

(* ... it ends the transfer *)
Theorem C14own_harderr_ends : forall c f m rk a b, wf14own c = true ->
  exec14own c = Val ((f, m), (rk, a, b)) -> rk = 5 ->
  last (logof_c c f) Zero = HardErr /\ ~ In HardErr (removelast (logof_c c f)).
Proof. exact C14own_harderr_ends_lemma. Qed.

(* conservation, without the boolean checker: k <= count bytes moved; reads: the endpoint lost exactly its first k
   source bytes and they are stored at addr, addr+1, ... (flat_write through the address map), writes: memory is
   unchanged and the sink gained exactly the k guest bytes at addr, addr+1, ...; exact forms: success iff k = count
   (no hard error, count > 0 or start address inside the target); up-to forms: Ok(a) has a = k *)
Theorem C14own_conserved : forall c f m rk a b, wf14own c = true -> exec14own c = Val ((f, m), (rk, a, b)) ->
  exists k, k <= w_count c
    /\ (if is_read (w_op c)
        then src_now (w_ek c) (f_st f) = ndrop k (src_of (w_ek c) (w_content c) (w_pos c))
             /\ k <= nlen (src_of (w_ek c) (w_content c) (w_pos c))
             /\ flat_write (w_target c) (w_mem c) (w_addr c) (ntake k (src_of (w_ek c) (w_content c) (w_pos c))) = Some m
        else m = w_mem c
             /\ nlen (sink_now (w_ek c) (nlen (w_content c)) (w_pos c) (f_st f)) = k
             /\ flat_read (w_target c) (w_mem c) (w_addr c) (N.to_nat k)
                = Some (sink_now (w_ek c) (nlen (w_content c)) (w_pos c) (f_st f)))
    /\ (if is_exact (w_op c)
        then rk <> 0 /\ (~ In HardErr (logof_c c f) -> (0 < w_count c \/ idx_of (w_target c) (w_addr c) <> None) ->
                         (rk = 1 <-> k = w_count c))
        else rk <> 1 /\ (rk = 0 -> a = k)).
Proof. exact C14own_conserved_lemma. Qed.

(* the k above is what an observer sees: how far the reader's position moved / how many bytes left the queue,
   resp. the bytes that appeared in the sink (Spec/C14own.v moved_rd / sink_of on the model's observation) *)
Theorem C14own_observed : forall c f m rk a b, wf14own c = true -> exec14own c = Val ((f, m), (rk, a, b)) ->
  run_C14own c = obs_of c f m rk a b
  /\ (if is_read (w_op c)
      then src_now (w_ek c) (f_st f) = ndrop (moved_rd (w_ek c) (w_content c) (w_pos c) (run_C14own c))
                                            (src_of (w_ek c) (w_content c) (w_pos c))
      else sink_of (w_ek c) (w_content c) (w_pos c) (run_C14own c)
           = sink_now (w_ek c) (nlen (w_content c)) (w_pos c) (f_st f)).
Proof. exact C14own_observed_lemma. Qed.

(* ANY endpoint.  The proof is generic: for every stream (call = its read_volatile / write_volatile, ex = its
   read_exact_volatile / write_all_volatile) over the descriptor state that honours the ONE-CALL CONTRACT [CallSpec]
   (a call consumes one script element; EINTR / hard error move nothing; otherwise Ok k with k <= the window, exactly k
   bytes moved between the stream's byte list [pj] and the window) and the EXACT CONTRACT [ExactSpec] (Ok iff the whole
   window was moved, zero-progress = UnexpectedEof / WriteZero, hard error passed on), the slice / region / guest-memory
   operation terminates and satisfies the post-condition [PostL] from which everything above follows: conservation
   through the address map, k <= count, the result-kind rules, the log rules.  The provided loops satisfy the exact
   contract for every stream that honours the call contract (Proofs/C14own.v exact_volatile_spec). *)
Theorem C14_any_endpoint_post : forall (rd : bool) (pj : sfd -> list N) (Extra : sfd -> N -> sfd -> Prop)
    (call : callT sfd) (sc0 : list fbeh) (InvB : N -> sfd -> Prop) (zerr : ioerr),
  (forall f, Extra f 0 f) ->
  (forall f k1 f1 k2 f2, Extra f k1 f1 -> Extra f1 k2 f2 -> Extra f (k1 + k2) f2) ->
  zerr = EUnexpectedEof \/ zerr = EWriteZero ->
  CallSpec rd pj Extra call InvB ->
  forall (ex : exactT) (F : nat), ExactSpec rd pj Extra sc0 InvB zerr ex F ->
  forall c, wf14 (case14_of c) = true -> F = fuel14own c -> sc0 = w_script c -> InvB (nlen (w_mem c)) (init_of c) ->
  exists f' m' rc, exec_ep call ex c = Val ((f', m'), rc)
    /\ PostL rd pj Extra sc0 (is_exact (w_op c)) (w_target c) (w_addr c) (w_count c) (init_of c) (w_mem c) f' m' rc.
Proof. exact exec_ep_post. Qed.

(* every endpoint of the suite honours both contracts (&[u8], Cursor, &mut [u8], Vec<u8>, scripted file / queue) *)
Theorem C14own_endpoints_honour_contracts : forall md ek rd n0 p0 sc0 F, ek_rw ek rd = true ->
  CallSpec rd (pj_of ek rd n0 p0) (extra_of ek rd) (e_call (endpoint_of md ek rd)) (inv_of ek rd n0 p0)
  /\ ExactSpec rd (pj_of ek rd n0 p0) (extra_of ek rd) sc0 (inv_of ek rd n0 p0) (zerr_of rd)
       (e_exact (endpoint_of md ek rd) F) F.
Proof. exact ep_contracts_lemma. Qed.

(* the generalised transcriptions of Suite/C14own.v are IoGuest.v's when the provided loop is plugged in *)
Theorem C14own_exact_default_is_IoGuest : forall zerr fuel (call : callT sfd) self addr s m count,
  vs_exact_e (exact_volatile zerr fuel call) self addr s m count = vs_exact zerr fuel call self addr s m count.
Proof. exact vs_exact_e_default_lemma. Qed.

Theorem C14own_gm_write_default_is_IoGuest : forall md fuel (call : callT sfd) L addr s m count,
  gm_write_volatile_to_e md fuel (exact_volatile EWriteZero fuel call) L addr s m count
  = gm_write_volatile_to md fuel call L addr s m count.
Proof. exact gm_write_volatile_to_e_default_lemma. Qed.

(* non-vacuity: (1) a 9-byte exact read across two adjacent regions from a regular file at offset 2 whose descriptor
   answers [EINTR; short 3; EINTR; EINTR; short 1; then real calls] succeeds after 6 calls; (2) a Cursor positioned past
   its end delivers nothing: PartialBuffer{9,0}, memory untouched, position unchanged; (3) a Vec sink gains the 7 guest
   bytes behind its old contents; (4) a hard error after 3 bytes ends a guest write with rk 5 *)
Example C14own_nonvacuous :
  let L := [ {| g_start := 4096; g_len := 6; g_moff := 0 |}; {| g_start := 4102; g_len := 5; g_moff := 6 |} ] in
  let mk := fun op ek sc content pos mem =>
    {| w_mode := Debug; w_target := TGuest L; w_mem := mem; w_addr := 4098; w_count := 9; w_op := op; w_ek := ek;
       w_script := sc; w_content := content; w_pos := pos |} in
  let c1 := mk RdExact EFile [FEintr; FShort 3; FEintr; FEintr; FShort 1] [90;91;1;2;3;4;5;6;7;8;9;10;11;12] 2 (repeat 0 11) in
  let c2 := mk RdExact ECurR [] [1;2;3;4] 18446744073709551615 (repeat 0 11) in
  let c3 := {| w_mode := Debug; w_target := TGuest L; w_mem := [0;1;2;3;4;5;6;7;8;9;10]; w_addr := 4099; w_count := 7;
               w_op := WrAll; w_ek := EVecW; w_script := []; w_content := [77]; w_pos := 0 |} in
  let c4 := mk WrUpTo EQueue [FShort 3; FErr] [] 0 [0;1;2;3;4;5;6;7;8;9;10] in
  wf14own c1 = true /\ y_rk (run_C14own c1) = 1 /\ y_mem (run_C14own c1) = [0;0;1;2;3;4;5;6;7;8;9]
  /\ y_calls (run_C14own c1) = 6 /\ y_pos (run_C14own c1) = 11
  /\ wf14own c2 = true /\ (y_rk (run_C14own c2), y_a (run_C14own c2), y_b (run_C14own c2)) = (8, 9, 0)
  /\ y_mem (run_C14own c2) = repeat 0 11 /\ y_pos (run_C14own c2) = 18446744073709551615
  /\ wf14own c3 = true /\ y_rk (run_C14own c3) = 1 /\ y_data (run_C14own c3) = [77;3;4;5;6;7;8;9]
  /\ wf14own c4 = true /\ y_rk (run_C14own c4) = 5 /\ y_out (run_C14own c4) = [2;3;4] /\ y_calls (run_C14own c4) = 2.
Proof. vm_compute. repeat split. Qed.

Print Assumptions C14own_model_ok.
Print Assumptions C14own_terminates.
Print Assumptions C14own_eintr_never_reported.
Print Assumptions C14own_eintr_retried.
Print Assumptions C14own_harderr_reported.
Print Assumptions C14own_harderr_ends.
Print Assumptions C14own_conserved.
Print Assumptions C14own_observed.
Print Assumptions C14_any_endpoint_post.
Print Assumptions C14own_endpoints_honour_contracts.
Print Assumptions C14own_exact_default_is_IoGuest.
Print Assumptions C14own_gm_write_default_is_IoGuest.
