(* C14 - property theorems (statements only). *)
From VM Require Import Prelude.MachInt Prelude.Outcome Prelude.C1314List Impl.Io Impl.IoGuest Spec.C14 Suite.C14 Proofs.C14.

Theorem C14_amount_le : forall b len, amount b len <= len.
Proof. exact amount_le_lemma. Qed.

Print Assumptions C14_amount_le.
