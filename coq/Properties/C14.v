(* C14 - stream transfers lose or duplicate nothing under short I/O, EINTR and errors.
   Statements only.  A case c fixes the target (VolatileSlice / GuestRegionMmap / GuestMemoryMmap with
   any number of regions), the memory contents, start address, count, operation and the SCRIPT of the
   stream: a list of per-call behaviours (Full | Short k | Zero | Eintr | HardErr) of ANY length,
   after which the stream answers Zero.  [exec14 c] runs the transcription of the vm-memory code
   (Impl/Io.v, Impl/IoGuest.v) with fuel length(script)+2 and yields the final stream (with its call
   log k_done), the final host memory and the result code (rk, a, b):
     rk 0 Ok(a)  1 Ok(())  2 UnexpectedEof  3 WriteZero  4 Interrupted  5 other io error  6 bounds
        7 InvalidGuestAddress  8 PartialBuffer{a,b}  9 CallbackOutOfRange  10 GuestAddressOverflow.
   [moved_of c s] = bytes the reader gave out / the writer accepted; [idx_of t a] = host index of
   the byte at target address a. *)
From VM Require Import Prelude.MachInt Prelude.Outcome Prelude.C1314List Impl.Io Impl.IoGuest Spec.C14 Suite.C14 Proofs.C14.
From VM Require Impl.Guest Proofs.LinkIoGuest.

(* the model satisfies the executable checker on every well-formed case *)
Theorem C14_model_ok : forall c, wf14 c = true -> ok_C14 c (run_C14 c) = true.
Proof. exact C14_model_ok_lemma. Qed.

(* never out of fuel, never a panic: retry_eintr!, the exact loops and try_access terminate on every script *)
Theorem C14_terminates : forall c, wf14 c = true -> exists s m rc, exec14 c = Val ((s, m), rc).
Proof. exact terminates_lemma. Qed.

(* the calls the stream received are exactly a prefix of (script ++ Zero Zero ...) *)
Theorem C14_calls_are_script : forall c s m rc, wf14 c = true -> exec14 c = Val ((s, m), rc) ->
  k_done s = calls_made (c_script c) (nlen (k_done s)).
Proof. exact calls_are_script_lemma. Qed.

(* an interruption is never reported and is never the last call (it is always retried) *)
Theorem C14_eintr_never_reported : forall c s m rk a b, wf14 c = true -> exec14 c = Val ((s, m), (rk, a, b)) ->
  rk <> 4 /\ last (k_done s) Zero <> Eintr.
Proof. exact eintr_never_reported_lemma. Qed.

(* a hard error is reported (and nothing else is reported as one); it ends the transfer *)
Theorem C14_harderr_reported : forall c s m rk a b, wf14 c = true -> exec14 c = Val ((s, m), (rk, a, b)) ->
  (In HardErr (k_done s) <-> rk = 5)
  /\ (rk = 5 -> last (k_done s) Zero = HardErr /\ ~ In HardErr (removelast (k_done s))).
Proof. exact harderr_reported_lemma. Qed.

(* reads: the k bytes consumed from the reader are the first k source bytes, byte i is stored at
   address addr+i (so none dropped, none stored twice, in order), every other host byte is unchanged *)
Theorem C14_consumed_is_stored : forall c s m rc, wf14 c = true -> is_read (c_op c) = true ->
  exec14 c = Val ((s, m), rc) ->
  let k := moved_of c s in
  k_src s = ndrop k (c_src c) /\ k <= nlen (c_src c) /\ nlen m = nlen (c_mem c)
  /\ (forall i, i < k -> exists j, idx_of (c_target c) (c_addr c + i) = Some j /\
                                nth_error m (N.to_nat j) = nth_error (c_src c) (N.to_nat i))
  /\ (forall j, (forall i, i < k -> idx_of (c_target c) (c_addr c + i) <> Some j) ->
                nth_error m (N.to_nat j) = nth_error (c_mem c) (N.to_nat j)).
Proof. exact consumed_is_stored_lemma. Qed.

(* writes: byte i handed to the writer is the guest byte at addr+i; memory is unchanged *)
Theorem C14_handed_is_next : forall c s m rc, wf14 c = true -> is_read (c_op c) = false ->
  exec14 c = Val ((s, m), rc) ->
  let k := moved_of c s in
  m = c_mem c /\ nlen (k_sink s) = k
  /\ (forall i, i < k -> exists j, idx_of (c_target c) (c_addr c + i) = Some j /\
                                nth_error (k_sink s) (N.to_nat i) = nth_error (c_mem c) (N.to_nat j)).
Proof. exact handed_is_next_lemma. Qed.

(* exact forms never answer Ok(n); without a hard error, and for count > 0 or a start address inside the
   target, they succeed exactly when the full count was transferred *)
Theorem C14_exact_ok_iff_full : forall c s m rk a b, wf14 c = true -> is_exact (c_op c) = true ->
  exec14 c = Val ((s, m), (rk, a, b)) ->
  rk <> 0 /\ (~ In HardErr (k_done s) -> (0 < c_count c \/ idx_of (c_target c) (c_addr c) <> None) ->
              (rk = 1 <-> moved_of c s = c_count c)).
Proof. exact exact_ok_iff_full_lemma. Qed.

(* up-to forms: Ok(n) has n = bytes actually moved *)
Theorem C14_upto_returns_moved : forall c s m rk a b, wf14 c = true -> is_exact (c_op c) = false ->
  exec14 c = Val ((s, m), (rk, a, b)) -> rk <> 1 /\ (rk = 0 -> a = moved_of c s).
Proof. exact upto_returns_moved_lemma. Qed.

(* no operation moves more than the requested count *)
Theorem C14_moved_le_count : forall c s m rc, wf14 c = true -> exec14 c = Val ((s, m), rc) ->
  moved_of c s <= c_count c.
Proof. exact moved_le_count_lemma. Qed.

(* every operation: host bytes outside the transferred prefix are unchanged *)
Theorem C14_frame : forall c s m rc, wf14 c = true -> exec14 c = Val ((s, m), rc) ->
  forall j, (forall i, i < moved_of c s -> idx_of (c_target c) (c_addr c + i) <> Some j) ->
            nth_error m (N.to_nat j) = nth_error (c_mem c) (N.to_nat j).
Proof. exact frame_lemma. Qed.

(* non-vacuity: a 9-byte exact read at 0x1002 across two adjacent regions with a script mixing
   interruptions and short reads succeeds and stores the 9 bytes; the same with a hard error stops *)
Example C14_nonvacuous :
  let L := [ {| g_start := 4096; g_len := 6; g_moff := 0 |}; {| g_start := 4102; g_len := 5; g_moff := 6 |} ] in
  let c := {| c_mode := Debug; c_target := TGuest L; c_mem := repeat 0 11; c_addr := 4098; c_count := 9;
              c_op := RdExact; c_script := [Eintr; Short 3; Eintr; Eintr; Short 1; Full; Full; HardErr];
              c_src := [1;2;3;4;5;6;7;8;9;10;11;12] |} in
  wf14 c = true /\ o_rk (run_C14 c) = 1 /\ o_mem (run_C14 c) = [0;0;1;2;3;4;5;6;7;8;9] /\ o_calls (run_C14 c) = 6
  /\ o_rk (run_C14 {| c_mode := Debug; c_target := TGuest L; c_mem := repeat 0 11; c_addr := 4098; c_count := 9;
                      c_op := RdExact; c_script := [Short 3; HardErr; Full]; c_src := [1;2;3;4;5;6;7;8;9] |}) = 5.
Proof. vm_compute. repeat split. Qed.

Print Assumptions C14_model_ok.
Print Assumptions C14_terminates.
Print Assumptions C14_calls_are_script.
Print Assumptions C14_eintr_never_reported.
Print Assumptions C14_harderr_reported.
Print Assumptions C14_consumed_is_stored.
Print Assumptions C14_handed_is_next.
Print Assumptions C14_exact_ok_iff_full.
Print Assumptions C14_upto_returns_moved.
Print Assumptions C14_moved_le_count.
Print Assumptions C14_frame.

(* ---------------------------------------------------------------------------------------------
   LINK to C03 (Proofs/LinkIoGuest.v).  The guest-level theorems above are about IoGuest.v's OWN
   transcription of try_access and of the stream methods (one host byte list, regions as windows).
   C03 verifies Guest.v's transcription (one byte list per region, abstract find_region).  They
   are the same functions:  [LinkIoGuest.erase] forgets only the source-line number carried by a
   Panic (the two files cite different revisions of guest_memory.rs), [tr_res] maps the error
   classes (GIo e |-> EIOError: C03 does not model the io::ErrorKind), [lay L] is the (start, len)
   layout of the regions, [M_of L m] the per-region byte lists cut out of the host byte list. *)

(* for EVERY callback, fuel, address, count and state: IoGuest.try_access is Guest.try_access over
   the linear find_region, the state being (stream, host memory) and the callback re-indexed by
   region number *)
Theorem C14_try_access_is_C03s : forall (S : Type) md L count addr (f : cbT S) fuel cur total s m,
  LinkIoGuest.erase (omap LinkIoGuest.trx (try_access md fuel L count addr f cur total s m)) =
  LinkIoGuest.erase (Guest.try_access Guest.find_lin md (LinkIoGuest.lay L) count (LinkIoGuest.cb_of L f) fuel (s, m) cur total).
Proof. exact @LinkIoGuest.try_access_same. Qed.

(* read_volatile_from: for every in-memory source handing out at most `chunk` bytes per call
   ([chunk_reader]), on every well-formed guest target of C14 ([wfmem] = the TGuest clause of wf14),
   running IoGuest's transcription (VolatileSlice offset / subslice checks, retry_eintr!, region
   delegation, try_access) and cutting the final host memory into regions gives exactly the result
   of Guest.gm_read_volatile_from - the function C03_read_volatile_from_refines_flat is about *)
Theorem C14_read_volatile_from_is_C03s : forall (S : Type) chunk (srcof : S -> list N) (call : callT S),
  LinkIoGuest.chunk_reader chunk srcof call ->
  forall L md addr s m count, LinkIoGuest.wfmem L m ->
  LinkIoGuest.erase (omap (fun x => (LinkIoGuest.abs_rd srcof L (fst x), LinkIoGuest.tr_res (snd x)))
      (gm_read_volatile_from md (Datatypes.S (Datatypes.S (length L + length (srcof s)))) call L addr s m count)) =
  LinkIoGuest.erase (Guest.gm_read_volatile_from Guest.find_lin md (LinkIoGuest.M_of L m) addr chunk (srcof s) count).
Proof. exact @LinkIoGuest.read_volatile_from_same. Qed.

(* the real `impl ReadVolatile for &[u8]` (Impl/Io.v, verified by C13) is such a source *)
Theorem C14_slice_source_is_chunk_reader : LinkIoGuest.chunk_reader W64 slice_rem slice_read_volatile.
Proof. exact LinkIoGuest.slice_is_chunk_reader. Qed.

(* the abstraction used: a write inside region i's window of the host byte list is Guest.v's
   write_at on region i's own byte list and is invisible to every other region *)
Theorem C14_host_memory_abstraction : forall L m i st bs, LinkIoGuest.wfmem L m -> (i < length L)%nat ->
  st + nlen bs <= g_len (nth i L LinkIoGuest.dregion) ->
  LinkIoGuest.M_of L (mem_write m (g_moff (nth i L LinkIoGuest.dregion) + st) bs) =
  Guest.upd_nth (LinkIoGuest.M_of L m) i
    (Guest.set_bytes (nth i (LinkIoGuest.M_of L m) Guest.dummy)
       (Guest.write_at (Guest.rbytes (nth i (LinkIoGuest.M_of L m) Guest.dummy)) (N.to_nat st) bs)).
Proof. exact LinkIoGuest.M_of_write. Qed.

(* ... the exact form likewise (same PartialBuffer wrapper on both sides) *)
Theorem C14_read_exact_volatile_from_is_C03s : forall (S : Type) chunk (srcof : S -> list N) (call : callT S),
  LinkIoGuest.chunk_reader chunk srcof call ->
  forall L md addr s m count, LinkIoGuest.wfmem L m ->
  LinkIoGuest.erase (omap (fun x => (LinkIoGuest.abs_rd srcof L (fst x), LinkIoGuest.tr_res (snd x)))
      (gm_read_exact_volatile_from md (Datatypes.S (Datatypes.S (length L + length (srcof s)))) call L addr s m count)) =
  LinkIoGuest.erase (Guest.gm_read_exact_volatile_from Guest.find_lin md (LinkIoGuest.M_of L m) addr chunk (srcof s) count).
Proof. exact @LinkIoGuest.read_exact_volatile_from_same. Qed.

(* write_volatile_to / write_all_volatile_to: for every in-memory sink that accepts each buffer
   completely ([all_writer], what Guest.v assumes of its Vec<u8> sink), IoGuest's transcription
   (VolatileSlice get_slice check, the write_all_volatile loop with retry_eintr!, region delegation,
   try_access) leaves the host memory alone and produces exactly the sink contents and result of
   Guest.gm_write_volatile_to / gm_write_all_volatile_to on the per-region byte lists *)
Theorem C14_write_volatile_to_is_C03s : forall (S : Type) (sinkof : S -> list N) (call : callT S),
  LinkIoGuest.all_writer sinkof call ->
  forall L m, LinkIoGuest.wfmem L m -> forall md addr s count,
  LinkIoGuest.erase (omap (fun x => (sinkof (fst (fst x)), LinkIoGuest.tr_res (snd x)))
      (gm_write_volatile_to md (Datatypes.S (length L)) call L addr s m count)) =
  LinkIoGuest.erase (Guest.gm_write_volatile_to Guest.find_lin md (LinkIoGuest.M_of L m) addr (sinkof s) count).
Proof. exact @LinkIoGuest.write_volatile_to_same. Qed.

Theorem C14_write_all_volatile_to_is_C03s : forall (S : Type) (sinkof : S -> list N) (call : callT S),
  LinkIoGuest.all_writer sinkof call ->
  forall L m, LinkIoGuest.wfmem L m -> forall md addr s count,
  LinkIoGuest.erase (omap (fun x => (sinkof (fst (fst x)), LinkIoGuest.tr_res (snd x)))
      (gm_write_all_volatile_to md (Datatypes.S (length L)) call L addr s m count)) =
  LinkIoGuest.erase (Guest.gm_write_all_volatile_to Guest.find_lin md (LinkIoGuest.M_of L m) addr (sinkof s) count).
Proof. exact @LinkIoGuest.write_all_volatile_to_same. Qed.

(* the real `impl WriteVolatile for Vec<u8>` (Impl/Io.v) is such a sink in builds without overflow
   checks (with them it additionally panics if the Vec would reach 2^64 bytes) *)
Theorem C14_vec_sink_is_all_writer : LinkIoGuest.all_writer s_data (vec_write_volatile Release).
Proof. exact LinkIoGuest.vec_is_all_writer. Qed.

Example C14_link_nonvacuous :
  let L := [ {| g_start := 4096; g_len := 6; g_moff := 0 |}; {| g_start := 4102; g_len := 5; g_moff := 6 |} ] in
  let st := {| s_data := [1;2;3;4;5;6;7;8;9;10;11;12]; s_pos := 1; s_out := [] |} in
  LinkIoGuest.wfmem L (repeat 0 11) /\
  omap (fun x => (LinkIoGuest.abs_rd slice_rem L (fst x), LinkIoGuest.tr_res (snd x)))
       (gm_read_volatile_from Debug 15 slice_read_volatile L 4098 st (repeat 0 11) 7) =
  Val (([ {| Guest.rstart := 4096; Guest.rbytes := [0;0;2;3;4;5] |}; {| Guest.rstart := 4102; Guest.rbytes := [6;7;8;0;0] |} ],
        [9;10;11;12]), inl 7) /\
  Guest.gm_read_volatile_from Guest.find_lin Debug (LinkIoGuest.M_of L (repeat 0 11)) 4098 W64 (slice_rem st) 7 =
  Val (([ {| Guest.rstart := 4096; Guest.rbytes := [0;0;2;3;4;5] |}; {| Guest.rstart := 4102; Guest.rbytes := [6;7;8;0;0] |} ],
        [9;10;11;12]), inl 7).
Proof.
  cbv zeta. split; [|split].
  - unfold LinkIoGuest.wfmem. split; [vm_compute; reflexivity|]. split; [vm_compute; reflexivity|].
    rewrite W64_val. vm_compute. reflexivity.
  - vm_compute. reflexivity.
  - rewrite W64_val. vm_compute. reflexivity.
Qed.

Print Assumptions C14_try_access_is_C03s.
Print Assumptions C14_read_volatile_from_is_C03s.
Print Assumptions C14_slice_source_is_chunk_reader.
Print Assumptions C14_host_memory_abstraction.
Print Assumptions C14_read_exact_volatile_from_is_C03s.
Print Assumptions C14_write_volatile_to_is_C03s.
Print Assumptions C14_write_all_volatile_to_is_C03s.
Print Assumptions C14_vec_sink_is_all_writer.
