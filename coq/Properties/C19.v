(* C19 - property theorems.  This file contains statements only: each is closed by
   [exact] of a lemma from Proofs/C19.v, pinned by [Check], followed by Print Assumptions. *)
From VM Require Import Prelude.MachInt Prelude.Outcome Impl.Address Spec.C19 Suite.C19 Proofs.C19.

(* the implementation model satisfies the executable spec checker on every input *)
Theorem C19_model_ok : forall c, c_a c < W64 -> c_b c < W64 -> ok_C19 c (run_C19 c) = true.
Proof. exact C19_model_ok_lemma. Qed.

Theorem C19_checked_add_exact : forall a b, a < W64 -> b < W64 ->
  (forall c, a_checked_add a b = Some c <-> c = a + b /\ a + b < W64) /\
  (a_checked_add a b = None <-> W64 <= a + b).
Proof. exact checked_add_exact_lemma. Qed.

Theorem C19_checked_sub_exact : forall a b,
  (forall c, a_checked_sub a b = Some c <-> Z.of_N c = (Z.of_N a - Z.of_N b)%Z) /\
  (a_checked_sub a b = None <-> (Z.of_N a - Z.of_N b < 0)%Z) /\
  a_checked_offset_from a b = a_checked_sub a b.
Proof. exact checked_sub_exact_lemma. Qed.

Theorem C19_overflowing_add_exact : forall a b, a < W64 -> b < W64 ->
  let '(v, f) := a_overflowing_add a b in
  Z.of_N v = ((Z.of_N a + Z.of_N b) mod 2 ^ 64)%Z /\ (f = true <-> W64 <= a + b).
Proof. exact overflowing_add_exact_lemma. Qed.

Theorem C19_overflowing_sub_exact : forall a b, a < W64 -> b < W64 ->
  let '(v, f) := a_overflowing_sub a b in
  Z.of_N v = ((Z.of_N a - Z.of_N b) mod 2 ^ 64)%Z /\ (f = true <-> a < b).
Proof. exact overflowing_sub_exact_lemma. Qed.

(* aligning up: for every address and each of the 64 powers of two, in both build profiles,
   the call returns (never panics) and returns Some c exactly when c is the least multiple
   of the alignment that is >= the address and c fits in 64 bits *)
Theorem C19_align_up_least : forall m a k, a < W64 -> 2 ^ k < W64 ->
  exists r, a_checked_align_up m a (2 ^ k) = Val r /\
  forall c, r = Some c <->
    (c < W64 /\ (exists q, c = q * 2 ^ k) /\ a <= c /\
     forall c' q', c' = q' * 2 ^ k -> a <= c' -> c <= c').
Proof. exact align_up_least_lemma. Qed.

Theorem C19_bit_ops_raw : forall a b,
  a_mask a b = N.land a b /\ a_bitand a b = N.land a b /\ a_bitor a b = N.lor a b.
Proof. exact bit_ops_raw_lemma. Qed.

Theorem C19_order_raw : forall a b,
  (a_cmp a b = 0 <-> a < b) /\ (a_cmp a b = 1 <-> a = b) /\ (a_cmp a b = 2 <-> b < a) /\
  (a_eq a b = true <-> a = b).
Proof. exact order_raw_lemma. Qed.

(* ordering and equality follow the raw values, through EVERY comparison form a caller can write on
   the two address newtypes (derived PartialOrd/Ord/PartialEq/Eq and the provided methods of those
   traits): partial_cmp is Some of the raw order (never None), < <= > >= == != are the raw
   comparisons, equality is symmetric, max/min are the greater/smaller raw value and clamp(b, hi)
   is the value of [b, hi] nearest to a (and panics, as documented, exactly when hi < b) *)
Theorem C19_ordering_follows_raw : forall a b,
  a_partial_cmp a b = Some (a_cmp a b) /\
  (a_partial_cmp a b = Some 0 <-> a < b) /\ (a_partial_cmp a b = Some 1 <-> a = b) /\
  (a_partial_cmp a b = Some 2 <-> b < a) /\
  (a_lt a b = true <-> a < b) /\ (a_le a b = true <-> a <= b) /\
  (a_gt a b = true <-> b < a) /\ (a_ge a b = true <-> b <= a) /\
  (a_eq a b = true <-> a = b) /\ (a_ne a b = true <-> a <> b) /\ a_eq a b = a_eq b a /\
  a_max a b = N.max a b /\ a_min a b = N.min a b /\
  (forall hi, b <= hi -> a_clamp a b hi = Val (N.max b (N.min a hi))) /\
  (forall hi, hi < b -> exists s, a_clamp a b hi = Panic s).
Proof. exact ordering_follows_raw_lemma. Qed.

(* non-vacuity: a concrete boundary case meets the hypotheses and exercises the None branch *)
Example C19_nonvacuous :
  a_checked_align_up Debug (W64 - 3) (2 ^ 12) = Val None /\
  a_checked_align_up Debug 4097 (2 ^ 12) = Val (Some 8192) /\ 2 ^ 12 < W64.
Proof. vm_compute. repeat split. Qed.

Print Assumptions C19_model_ok.
Print Assumptions C19_checked_add_exact.
Print Assumptions C19_checked_sub_exact.
Print Assumptions C19_overflowing_add_exact.
Print Assumptions C19_overflowing_sub_exact.
Print Assumptions C19_align_up_least.
Print Assumptions C19_bit_ops_raw.
Print Assumptions C19_order_raw.
Print Assumptions C19_ordering_follows_raw.
