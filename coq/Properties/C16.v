(* C16 - Dirty marks are confined to what was written (tracking is precise).  Statements only. *)
From VM Require Import Prelude.MachInt Impl.Dirty Spec.C05 Suite.C05 Proofs.C05 Proofs.C05ModelOk.

(* a page reported dirty after an operation was dirty before it, or contains a byte of a range the
   operation marked; and (next theorem) the marked range IS the written range for every operation
   except the documented failed-descriptor-read exception *)
Theorem C16_precise : forall hm rs s rs' out, wf rs -> is_reset s = false -> run_step hm rs s = (rs', out) ->
  forall j p, D rs' j p = true ->
  D rs j p = true \/
  exists e r i, In e (o_effs out) /\ e_r e = j /\ nth_error rs j = Some r /\
                e_woff e <= i < e_woff e + e_mlen e /\ i / r_ps r = p /\ i < r_size r.
Proof. exact C16_precise_lemma. Qed.

Theorem C16_marked_is_written : forall hm rs s rs' out, wf rs -> is_reset s = false -> is_fd_error s = false ->
  run_step hm rs s = (rs', out) -> forall e, In e (o_effs out) -> e_mlen e = e_wn e.
Proof. exact mlen_is_wn_lemma. Qed.

(* the abstract bitmap operation itself: marking a range affects exactly the existing pages of the
   inclusive page interval (this is the interface C09 proves of AtomicBitmap) *)
Theorem C16_mark_spec : forall ps d off len v p,
  nthb (mark ps d off len v) p =
  if (len =? 0) then nthb d p
  else if page_in ps off len p && (p <? N.of_nat (length d)) then v else nthb d p.
Proof. exact mark_spec. Qed.

Theorem C16_page_in_overlap : forall ps off len p, 0 < ps -> 0 < len -> off + len <= W64 ->
  (page_in ps off len p = true <-> exists i, off <= i < off + len /\ i / ps = p).
Proof. exact page_in_overlap. Qed.

(* the implementation model satisfies the executable checker ok_C16 (the one that judges the REAL
   observations) on every history of every well-formed state; [view] is what the harness observes:
   the page bits of each region plus a two-page margin *)
Theorem C16_model_ok : forall hm ss rs, wf rs ->
  ok_hist ok_C16_step (map geom_of rs) (view rs) (map kind_of ss) (run_hist hm rs ss) = true.
Proof. exact C16_model_ok_lemma. Qed.

Example C16_nonvacuous :
  let r := {| r_start := 4096; r_size := 8192; r_ps := 4096; r_tracked := true; r_dirty := [false; false] |} in
  (* an 8-byte write ending exactly at the page end marks page 0 only; a read marks nothing *)
  map r_dirty (fst (run_step 0 [r] (SGuest (GWrite 8 (4096 + 4088))))) = [[true; false]] /\
  map r_dirty (fst (run_step 0 [r] (SGuest (GRead 8 (4096 + 4092))))) = [[false; false]] /\
  map r_dirty (fst (run_step 0 [r] (SGuest (GWrite 8 (4096 + 4089))))) = [[true; true]].
Proof. vm_compute. repeat split. Qed.

Print Assumptions C16_precise.
Print Assumptions C16_marked_is_written.
Print Assumptions C16_mark_spec.
Print Assumptions C16_page_in_overlap.
Print Assumptions C16_model_ok.
