(* C16 - Dirty marks are confined to what was written (tracking is precise).  Statements only. *)
From VM Require Import Prelude.MachInt Prelude.Outcome Impl.Bitmap Impl.Dirty Spec.C05 Suite.C05 Proofs.C05 Proofs.C05ModelOk Proofs.LinkDirtyBitmap.

(* a page reported dirty after an operation was dirty before it, or contains a byte of a range the
   operation marked; and (next theorem) the marked range IS the written range for every operation
   except the documented failed-descriptor-read exception (read(2) returned an error - at once, or
   part-way after storing a prefix: the whole target is marked, io.rs:191-195) *)
Theorem C16_precise : forall hm rs s rs' out, wf rs -> is_reset s = false -> run_step hm rs s = (rs', out) ->
  forall j p, D rs' j p = true ->
  D rs j p = true \/
  exists e r i, In e (o_effs out) /\ e_r e = j /\ nth_error rs j = Some r /\
                e_woff e <= i < e_woff e + e_mlen e /\ i / r_ps r = p /\ i < r_size r.
Proof. exact C16_precise_lemma. Qed.

Theorem C16_marked_is_written : forall hm rs s rs' out, wf rs -> is_reset s = false -> is_fd_error s = false ->
  run_step hm rs s = (rs', out) -> forall e, In e (o_effs out) -> e_mlen e = e_wn e.
Proof. exact mlen_is_wn_lemma. Qed.

(* the documented exception is bounded: also for a failed descriptor read (failing at once or part-way)
   the marked range starts at the first byte of the target, covers what was written and stays inside
   the region - it is the target of the call, never more *)
Theorem C16_marked_covers_written : forall hm rs s rs' out, wf rs -> is_reset s = false -> run_step hm rs s = (rs', out) ->
  forall e, In e (o_effs out) ->
  e_moff e = e_woff e /\ e_wn e <= e_mlen e /\
  exists r, nth_error rs (e_r e) = Some r /\ e_woff e + e_mlen e <= r_size r.
Proof. exact marked_covers_written_lemma. Qed.

(* the abstract bitmap operation itself: marking a range affects exactly the existing pages of the
   inclusive page interval (this is the interface C09 proves of AtomicBitmap) *)
Theorem C16_mark_spec : forall ps d off len v p,
  nthb (mark ps d off len v) p =
  if (len =? 0) then nthb d p
  else if page_in ps off len p && (p <? N.of_nat (length d)) then v else nthb d p.
Proof. exact mark_spec. Qed.

Theorem C16_page_in_overlap : forall ps off len p, 0 < ps -> 0 < len -> off + len <= W64 ->
  (page_in ps off len p = true <-> exists i, off <= i < off + len /\ i / ps = p).
Proof. exact page_in_overlap. Qed.

(* the implementation model satisfies the executable checker ok_C16 (the one that judges the REAL
   observations) on every history of every well-formed state; [view] is what the harness observes:
   the page bits of each region plus a two-page margin *)
Theorem C16_model_ok : forall hm ss rs, wf rs ->
  ok_hist ok_C16_step (map geom_of rs) (view rs) (map kind_of ss) (run_hist hm rs ss) = true.
Proof. exact C16_model_ok_lemma. Qed.

Example C16_nonvacuous :
  let r := {| r_start := 4096; r_size := 8192; r_ps := 4096; r_tracked := true; r_dirty := [false; false] |} in
  (* an 8-byte write ending exactly at the page end marks page 0 only; a read marks nothing *)
  map r_dirty (fst (run_step 0 [r] (SGuest (GWrite 8 (4096 + 4088))))) = [[true; false]] /\
  map r_dirty (fst (run_step 0 [r] (SGuest (GRead 8 (4096 + 4092))))) = [[false; false]] /\
  map r_dirty (fst (run_step 0 [r] (SGuest (GWrite 8 (4096 + 4089))))) = [[true; true]].
Proof. vm_compute. repeat split. Qed.

Print Assumptions C16_precise.
Print Assumptions C16_marked_is_written.
Print Assumptions C16_marked_covers_written.
Print Assumptions C16_mark_spec.
Print Assumptions C16_page_in_overlap.
Print Assumptions C16_model_ok.

(* ---------------------------------------------------------------------------------------------
   LINK to C09 (Proofs/LinkDirtyBitmap.v).  [mark] above is no longer an assumed interface: the
   word-level AtomicBitmap model of Impl/Bitmap.v refines it.  [pages_of b] is the page list a
   bitmap denotes (C09's abs_pages over 0..len). *)

(* for every bitmap satisfying C09's invariant and EVERY offset / length (including the wrapped
   BaseSlice offsets): mark_dirty and reset_addr_range never panic nor run out of fuel, keep the
   invariant and compute [mark .. true] / [mark .. false] on the page list; reset clears it;
   dirty_at is the page lookup *)
Theorem C16_bitmap_refines_mark : forall b off len, bm_inv b ->
  (bm_mark_dirty_o b off len = Val (bm_mark_dirty b off len) /\ bm_inv (bm_mark_dirty b off len) /\
   pages_of (bm_mark_dirty b off len) = mark (bm_ps b) (pages_of b) off len true) /\
  (bm_reset_addr_range_o b off len = Val (bm_reset_addr_range b off len) /\ bm_inv (bm_reset_addr_range b off len) /\
   pages_of (bm_reset_addr_range b off len) = mark (bm_ps b) (pages_of b) off len false) /\
  (bm_inv (bm_reset b) /\ pages_of (bm_reset b) = map (fun _ => false) (pages_of b)) /\
  (bm_dirty_at_o b off = Val (bm_dirty_at b off) /\ bm_dirty_at b off = nthb (pages_of b) (off / bm_ps b)) /\
  length (pages_of b) = N.to_nat (bm_len b).
Proof. exact bitmap_refines_lemma. Qed.

(* a region built with AtomicBitmap::new(size, page) is a valid word-level region and abstracts
   to the all-clean Dirty.v region *)
Theorem C16_new_region_refines : forall st size ps, 0 < ps -> size < W64 ->
  let w := {| w_start := st; w_size := size; w_ps := ps; w_bm := Some (bm_new size ps) |} in
  wwf w /\ abs_region w = {| r_start := st; r_size := size; r_ps := ps; r_tracked := true;
                             r_dirty := repeat false (N.to_nat (npages size ps)) |}.
Proof. exact new_region_lemma. Qed.

(* C16_precise on the word-level bitmap ([wrun_step], [WD]: see Properties/C05.v): if dirty_at(i)
   answers true after a step, it did before, or an effect of the step marked a byte on i's page *)
Theorem C16_precise_words : forall hm ws s ws' out, wwfs ws -> is_reset s = false -> wrun_step hm ws s = (ws', out) ->
  forall j i, WD ws' j i = true ->
  WD ws j i = true \/
  exists e w i', In e (o_effs out) /\ e_r e = j /\ nth_error ws j = Some w /\
                 e_woff e <= i' < e_woff e + e_mlen e /\ i' / w_ps w = i / w_ps w /\ i' < w_size w.
Proof. exact C16_precise_words_lemma. Qed.

Example C16_words_nonvacuous :
  let w := {| w_start := 4096; w_size := 8192; w_ps := 4096; w_bm := Some (bm_new 8192 4096) |} in
  map (fun w => option_map bm_words (w_bm w)) (fst (wrun_step 0 [w] (SGuest (GWrite 8 (4096 + 4088))))) = [Some [1]] /\
  map (fun w => option_map bm_words (w_bm w)) (fst (wrun_step 0 [w] (SGuest (GRead 8 (4096 + 4092))))) = [Some [0]] /\
  map (fun w => option_map bm_words (w_bm w)) (fst (wrun_step 0 [w] (SGuest (GWrite 8 (4096 + 4089))))) = [Some [3]].
Proof. vm_compute. repeat split. Qed.

Print Assumptions C16_bitmap_refines_mark.
Print Assumptions C16_new_region_refines.
Print Assumptions C16_precise_words.

(* ================================================================== the region layer and the other first accessors
   (Impl/Dirty.v run_xstep, Proofs/C05Root.v; C05_xstep_is_step in Properties/C05.v carries C16_precise over) *)
From VM Require Proofs.C05Root.

Theorem C16_xmodel_ok : forall hm xs rs, wf rs ->
  ok_hist ok_C16_step (map geom_of rs) (view rs) (map kind_of (map (lower rs) xs)) (C05Root.run_xhist hm rs xs) = true.
Proof. exact C05Root.C16_xmodel_ok_lemma. Qed.

(* REGION layer (Bytes<MemoryRegionAddress>::read_exact_volatile_from, in-memory source): a request that FAILS - target
   out of range, or the source shorter than the request - stores nothing, calls mark_dirty not at all and leaves the
   state as it was (the documented exception concerns a failing DESCRIPTOR read only) *)
Theorem C16_region_exact_read_failure_marks_nothing : forall hm rs ri cnt addr srclen rs' out,
  run_xstep hm rs (XRegion ri (OReadExactFrom cnt addr srclen)) = (rs', out) ->
  o_ok out = false -> rs' = rs /\ o_effs out = [].
Proof. exact C05Root.region_exact_read_failure_lemma. Qed.

(* ... and an accepted one writes and marks exactly [addr, addr + cnt) *)
Theorem C16_region_exact_read_success_exact : forall hm rs ri r cnt addr srclen rs' out,
  nth_error rs ri = Some r ->
  run_xstep hm rs (XRegion ri (OReadExactFrom cnt addr srclen)) = (rs', out) ->
  o_ok out = true ->
  o_effs out = [{| e_r := ri; e_woff := addr; e_wn := cnt; e_moff := bm_at 0 addr; e_mlen := cnt |}]
  /\ addr + cnt <= r_size r /\ cnt <= srclen.
Proof. exact C05Root.region_exact_read_success_lemma. Qed.

Example C16_region_layer_nonvacuous :
  let r := {| r_start := 0; r_size := 12288; r_ps := 4096; r_tracked := true; r_dirty := [false; false; false] |} in
  (* a 0x1800-byte exact read at 0x1000 from a 16-byte source: refused, nothing marked *)
  (let '(rs', out) := run_xstep 0 [r] (XRegion 0 (OReadExactFrom 6144 4096 16)) in
   o_ok out = false /\ map r_dirty rs' = [[false; false; false]]) /\
  (let '(rs', out) := run_xstep 0 [r] (XRegion 0 (OReadExactFrom 6144 4096 6144)) in
   o_ok out = true /\ map r_dirty rs' = [[false; true; true]]).
Proof. vm_compute. repeat split. Qed.

Print Assumptions C16_xmodel_ok.
Print Assumptions C16_region_exact_read_failure_marks_nothing.
Print Assumptions C16_region_exact_read_success_exact.

(* pointer guards are QUERIES (red-team round 2, C16-1): ptr_guard() / ptr_guard_mut() of any accessor - slice, typed reference,
   element array; from any root, along any chain - taken and dropped stores nothing, never calls mark_dirty and leaves the
   state as it was.  (C05_xstep_is_step lowers the step to a read-type base step reporting len(): C16_precise applies.) *)
Theorem C16_guard_is_a_query : forall hm rs ri k ch rs' out,
  run_xstep hm rs (XGuard ri k ch) = (rs', out) -> rs' = rs /\ o_effs out = [].
Proof. exact C05Root.guard_is_query_lemma. Qed.
Print Assumptions C16_guard_is_a_query.
