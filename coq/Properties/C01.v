(* C01 - property theorems (statements only; proofs in Proofs/C01.v). *)
From VM Require Import Prelude.MachInt Prelude.Outcome Impl.Volatile Spec.C01 Suite.C01 Proofs.C01.

Theorem C01_compute_end_offset_exact : forall len base offset e,
  compute_end_offset len base offset = Ok e <-> e = base + offset /\ base + offset <= len /\ base + offset < W64.
Proof. exact compute_end_offset_Ok. Qed.

Print Assumptions C01_compute_end_offset_exact.
