(* C01 - every accessor handed out stays inside its parent memory and is aligned.
   Statements only: each is closed by [exact] of a lemma from Proofs/C01.v.
   Vocabulary (Spec/C01.v, Impl/Volatile.v):
     accessor   a slice / typed ref / array ref / &T / &Atomic / host pointer / region, with host
                address and sizes as N
     derive m p op        one accessor-producing call of the library on accessor p (the model)
     acc_base, acc_len    host address and EXACT number of designated bytes (nelem * size for arrays)
     inside p c           c designates only bytes of p
     acc_valid p          p is an address range ending below 2^64, no longer than isize::MAX (true of
                          every Rust object and mapping; the contract of the unsafe constructors)
     fits p op            the request fits p, in unbounded arithmetic (no wrap-around)
     op_wf op             the alignment named by the request is a power of two (align_of always is) *)
From VM Require Import Prelude.MachInt Prelude.Outcome Impl.Volatile Spec.C01 Suite.C01 Proofs.C01.
From VM Require Impl.Dirty Impl.VolMem Proofs.C05 Proofs.LinkGeometry.

(* the implementation model satisfies the executable spec checker on every well-formed case:
   any root, any number of requests of any kind with any arguments, both build profiles *)
Theorem C01_model_ok : forall c, wf_case c -> ok_C01 c (run_C01 c) = true.
Proof. exact C01_model_ok_lemma. Qed.

(* what an accepting verdict of the checker means, for ANY observation (in particular the real
   library's): every answer that is an accessor comes from a method that exists and its observed
   bytes - own extent, nelem * size for arrays, guard length - lie inside the root slice *)
Theorem C01_checker_sound : forall c obs, is_slice_root (c_rootk c) = true -> ok_C01 c obs = true ->
  all_inside (c_len c) (root_geom c) (c_ops c) obs.
Proof. exact checker_sound_lemma. Qed.

(* whatever is requested, in both build profiles: an accessor that is handed out lies inside its
   parent (and is again a valid range, so the statement chains) *)
Theorem C01_derive_contained : forall m p op c, acc_valid p -> op_wf op ->
  derive m p op = Val (Ok c) ->
  acc_base p <= acc_base c /\ acc_base c + acc_len c <= acc_base p + acc_len p /\ acc_valid c.
Proof. exact derive_contained_flat. Qed.

(* a typed or atomic reference is only produced at a multiple of the type's alignment *)
Theorem C01_derive_aligned : forall m p op c, acc_valid p -> op_wf op ->
  derive m p op = Val (Ok c) ->
  match c with ATyped t | AAtomic t => tr_addr t mod tr_align t = 0 | _ => True end.
Proof. exact derive_aligned_lemma. Qed.

(* a request is answered with an accessor exactly when it fits: no accessor for a request that
   does not fit (including the ones whose arithmetic overflows), no refusal of one that does.
   Side condition: the parent does not end at the very top of the address space. *)
Theorem C01_derive_exact : forall m p op, acc_valid p -> op_wf op ->
  (fits p op <-> exists c, derive m p op = Val (Ok c)).
Proof. exact derive_exact_lemma. Qed.

(* and the accessor is the one the request names (no wrap-around in its address or length) *)
Theorem C01_derive_child : forall m p op c, acc_valid p -> op_wf op ->
  (derive m p op = Val (Ok c) <-> fits p op /\ c = child p op).
Proof. exact derive_child_lemma. Qed.

(* chains of derivations of ANY depth stay inside the root (induction over the request list) *)
Theorem C01_chain_contained : forall ops m root c, acc_valid root -> Forall op_wf ops ->
  derive_chain m root ops = Val (Ok c) ->
  acc_base root <= acc_base c /\ acc_base c + acc_len c <= acc_base root + acc_len root /\ acc_valid c.
Proof. exact chain_contained_flat. Qed.

Theorem C01_chain_aligned : forall ops m root c, acc_valid root -> Forall op_wf ops -> ops <> [] ->
  derive_chain m root ops = Val (Ok c) ->
  match c with ATyped t | AAtomic t => tr_addr t mod tr_align t = 0 | _ => True end.
Proof. exact chain_aligned_lemma. Qed.

(* on the way to an accessor of a valid parent the pointer arithmetic
   (ptr::add / ptr::offset) stays within its language-defined domain: no overflow, offset <= isize::MAX *)
Theorem C01_ptr_arith_defined : forall m p op c, acc_valid p -> op_wf op ->
  derive m p op = Val (Ok c) -> ptr_add_defined (acc_base p) (acc_base c - acc_base p) /\
  acc_base c = acc_base p + (acc_base c - acc_base p).
Proof. exact ptr_arith_defined_lemma. Qed.

(* GuestMemory::get_slice / get_host_address, given what find_region returned: an accessor only
   inside that region, at the offset of the guest address; no region, no accessor *)
Theorem C01_guest_get_slice : forall m fr addr count s,
  (forall r, fr = Some r -> acc_valid (AGRegion r)) ->
  gm_get_slice m fr addr count = Val (Ok s) ->
  exists r, fr = Some r /\ gr_base r <= addr /\
            s = VS (rg_addr (gr_map r) + (addr - gr_base r)) count /\
            (addr - gr_base r) + count <= rg_size (gr_map r) /\ inside (AGRegion r) (ASlice s).
Proof. exact gm_get_slice_lemma. Qed.

Theorem C01_guest_get_host_address : forall fr addr p,
  (forall r, fr = Some r -> acc_valid (AGRegion r)) ->
  gm_get_host_address fr addr = Val (Ok p) ->
  exists r, fr = Some r /\ gr_base r <= addr /\ addr - gr_base r < rg_size (gr_map r) /\
            p = rg_addr (gr_map r) + (addr - gr_base r) /\ inside (AGRegion r) (AHost p).
Proof. exact gm_get_host_address_lemma. Qed.

Theorem C01_guest_unmapped : forall m addr count,
  gm_get_slice m None addr count = Val (Err (GInvalidGuestAddress addr)) /\
  gm_get_host_address None addr = Val (Err (GInvalidGuestAddress addr)).
Proof. exact gm_unmapped_lemma. Qed.

(* non-vacuity: a 9-byte parent ending 2 bytes below 2^64; a fitting chain, a request whose
   pointer sum overflows, a misaligned and an aligned atomic request *)
Example C01_model_ok_nonvacuous :
  let c := {| c_mode := Debug; c_rootk := RK_GMEM; c_base := 0; c_len := 0;
              c_regions := [(4096, 8192); (16384, 9)];
              c_ops := [ {| s_rq := QGmGetSlice; s_ty := 0; s_a := 16385; s_b := 8 |};
                         {| s_rq := QGetArrayRef; s_ty := 1; s_a := 1; s_b := 3 |};
                         {| s_rq := QRefAt; s_ty := 0; s_a := 3; s_b := 0 |};
                         {| s_rq := QRefAt; s_ty := 0; s_a := 2; s_b := 0 |} ] |} in
  wf_case c /\
  map o_class (run_C01 c) = [0; 0; 5; 0] /\ map o_off (run_C01 c) = [1; 2; 0; 6] /\ map o_ridx (run_C01 c) = [1; 1; 0; 1].
Proof.
  cbv zeta. split.
  - split; [vm_compute; discriminate|]. cbn. split; [discriminate|]. split.
    + repeat constructor.
    + vm_compute. discriminate.
  - vm_compute. repeat split.
Qed.

Example C01_nonvacuous :
  let root := ASlice (VS (W64 - 11) 9) in
  let u32 := {| e_size := 4; e_align := 4 |} in
  acc_valid root /\ Forall op_wf [DOffset 1; DGetArrayRef u32 4 1; DRefAt 0] /\
  derive_chain Debug root [DOffset 1; DGetArrayRef u32 4 1; DRefAt 0] = Val (Ok (ARef (VR (W64 - 6) 4))) /\
  derive Debug root (DOffset 12) = Val (Err (DV (EOverflow (W64 - 11) 12))) /\
  derive Debug root (DGetAtomicRef u32 2) = Val (Err (DV (EMisaligned (W64 - 9) 4))) /\
  derive Debug root (DGetAtomicRef u32 3) = Val (Ok (AAtomic (TR (W64 - 8) 4 4))).
Proof.
  cbv zeta. split; [unfold acc_valid; rewrite W64_val; vm_compute; split; [reflexivity|discriminate]|].
  split; [repeat constructor|]. rewrite W64_val. vm_compute. repeat split.
Qed.

Print Assumptions C01_model_ok.
Print Assumptions C01_checker_sound.
Print Assumptions C01_derive_contained.
Print Assumptions C01_derive_aligned.
Print Assumptions C01_derive_exact.
Print Assumptions C01_derive_child.
Print Assumptions C01_chain_contained.
Print Assumptions C01_chain_aligned.
Print Assumptions C01_ptr_arith_defined.
Print Assumptions C01_guest_get_slice.
Print Assumptions C01_guest_get_host_address.
Print Assumptions C01_guest_unmapped.

(* ---------------------------------------------------------------------------------------------
   LINK to C05/C16 and C04 (Proofs/LinkGeometry.v).  Impl/Dirty.v and Impl/VolMem.v re-code the
   accessor geometry (region-relative offsets / heap indices).  It agrees with the transcription
   above: [to_acc hb a] places a Dirty.v accessor (a_off, a_len, a_kind) at host base hb,
   [to_dop k d] is the request a Dirty.v derivation step stands for, [to_ops] the request list of
   a chain, [vm_acc hb s] places a VolMem.v slice. *)

(* Dirty.derive answers Some a' exactly when the transcribed code answers Ok with a' placed at hb
   (both build profiles; every request kind, incl. the ones that do not apply to the accessor) *)
Theorem C01_dirty_geometry_agrees : forall m hb a d,
  Proofs.C05.kind_ok a -> acc_valid (LinkGeometry.to_acc hb a) ->
  (forall a', Dirty.derive a d = Some a' ->
     derive m (LinkGeometry.to_acc hb a) (LinkGeometry.to_dop (Dirty.a_kind a) d) = Val (Ok (LinkGeometry.to_acc hb a'))) /\
  (forall c, derive m (LinkGeometry.to_acc hb a) (LinkGeometry.to_dop (Dirty.a_kind a) d) = Val (Ok c) ->
     exists a', Dirty.derive a d = Some a' /\ LinkGeometry.to_acc hb a' = c).
Proof. exact LinkGeometry.derive_agree. Qed.

(* ... for derivation chains of any depth *)
Theorem C01_dirty_chain_agrees : forall m hb ds a a',
  Proofs.C05.kind_ok a -> acc_valid (LinkGeometry.to_acc hb a) ->
  Dirty.derive_chain a ds = Some a' ->
  derive_chain m (LinkGeometry.to_acc hb a) (LinkGeometry.to_ops a ds) = Val (Ok (LinkGeometry.to_acc hb a')).
Proof. exact LinkGeometry.chain_agree. Qed.

(* containment transferred (through C01_chain_contained, not re-proved arithmetically): the
   accessor a C05/C16 operation uses after ANY derivation chain from a region's root slice
   designates only host bytes of that region, for a region that is a valid allocation at hb *)
Theorem C01_contained_transfers_to_dirty : forall hb (r : Dirty.region) ds a,
  hb + Dirty.r_size r < W64 -> Dirty.r_size r <= ISZ_MAX ->
  Dirty.derive_chain (Dirty.root r) ds = Some a ->
  acc_base (LinkGeometry.to_acc hb a) = hb + Dirty.a_off a /\ acc_len (LinkGeometry.to_acc hb a) = Dirty.a_len a /\
  hb <= hb + Dirty.a_off a /\ hb + Dirty.a_off a + Dirty.a_len a <= hb + Dirty.r_size r /\
  acc_valid (LinkGeometry.to_acc hb a).
Proof. exact LinkGeometry.chain_contained_transfer. Qed.

(* VolMem.v's heap-index slices: subslice / get_slice and offset agree with the transcription *)
Theorem C01_volmem_geometry_agrees : forall m hb s,
  acc_valid (ASlice (LinkGeometry.vm_acc hb s)) ->
  (forall o c, match VolMem.vs_subslice s o c with
     | VolMem.Ok s' => vs_subslice m (LinkGeometry.vm_acc hb s) o c = Val (Ok (LinkGeometry.vm_acc hb s'))
     | VolMem.Err _ => exists e, vs_subslice m (LinkGeometry.vm_acc hb s) o c = Val (Err e) end) /\
  (forall c, match VolMem.vs_offset hb s c with
     | VolMem.Ok s' => vs_offset m (LinkGeometry.vm_acc hb s) c = Val (Ok (LinkGeometry.vm_acc hb s'))
     | VolMem.Err _ => exists e, vs_offset m (LinkGeometry.vm_acc hb s) c = Val (Err e) end).
Proof. exact LinkGeometry.volmem_agree. Qed.

Example C01_link_nonvacuous :
  let r := {| Dirty.r_start := 0; Dirty.r_size := 64; Dirty.r_ps := 16; Dirty.r_tracked := true; Dirty.r_dirty := [] |} in
  let ds := [Dirty.DSub 8 40; Dirty.DGetArr 4 4 6; Dirty.DRefAt 5; Dirty.DToSlice] in
  exists a, Dirty.derive_chain (Dirty.root r) ds = Some a /\ Dirty.a_off a = 32 /\ Dirty.a_len a = 4 /\
  LinkGeometry.to_ops (Dirty.root r) ds =
    [DSubslice 8 40; DGetArrayRef (LinkGeometry.ety_of 4) 4 6; DRefAt 5; DRefToSlice] /\
  derive_chain Debug (LinkGeometry.to_acc 4096 (Dirty.root r)) (LinkGeometry.to_ops (Dirty.root r) ds) =
    Val (Ok (ASlice (VS 4128 4))).
Proof. cbv zeta. eexists. split; [vm_compute; reflexivity|]. vm_compute. repeat split. Qed.

Print Assumptions C01_dirty_geometry_agrees.
Print Assumptions C01_dirty_chain_agrees.
Print Assumptions C01_contained_transfers_to_dirty.
Print Assumptions C01_volmem_geometry_agrees.

(* ================================================================== third-party implementors
   of trait VolatileMemory (Suite/C01impl.v, Proofs/C01Impl.v): the PROVIDED methods
   as_volatile_slice / get_ref / get_array_ref / aligned_as_ref / aligned_as_mut / get_atomic_ref,
   over ANY get_slice function gs - nothing is assumed of it except where stated. *)
From VM Require Suite.C01impl Proofs.C01Impl.

(* every answer of a provided method is built from a slice gs returned for exactly the request's
   (offset, byte count), and - for the typed accessors - only if that slice has the requested
   length (the length assertions) and, where alignment matters, an aligned address *)
Theorem C01_any_implementor_shape : forall m gs L op c, op_wf op ->
  derive_vm m gs L op = Val (Ok c) -> C01Impl.vm_shape gs L op c.
Proof. exact C01Impl.derive_vm_shape_lemma. Qed.

(* hence: if the implementor's get_slice only returns slices of its own memory [A, A+L), every
   accessor a provided method hands out lies in [A, A+L) too, and typed / atomic ones are aligned *)
Theorem C01_any_implementor_contained : forall m gs A L op c,
  (forall off cnt s, gs off cnt = Val (Ok s) -> A <= vs_addr s /\ vs_addr s + vs_size s <= A + L) ->
  op_wf op -> derive_vm m gs L op = Val (Ok c) ->
  (A <= acc_base c /\ acc_base c + acc_len c <= A + L) /\ acc_aligned c.
Proof. exact C01Impl.any_implementor_contained_lemma. Qed.

(* and if, whenever it returns the requested number of bytes, they are the requested ones, a typed
   request that is answered with an accessor fits, and the accessor is exactly the one named *)
Theorem C01_any_implementor_exact : forall m gs A L op c,
  (forall off cnt s, gs off cnt = Val (Ok s) -> vs_size s = cnt -> off + cnt <= L /\ vs_addr s = A + off) ->
  op_wf op -> C01Impl.is_typed_request op = true ->
  derive_vm m gs L op = Val (Ok c) -> fits_vm A L op /\ c = child_vm A L op.
Proof. exact C01Impl.any_implementor_exact_lemma. Qed.

(* a memory that is logically L bytes but physically chunks of cc bytes separated by gaps of gg
   bytes that do not belong to it (get_slice answers the part of the request inside the chunk of
   its first byte, C01impl.chunk_gs): whatever a provided method hands out lies inside ONE chunk
   (chunk j occupies [A + j*(cc+gg), A + j*(cc+gg) + min(cc, L - j*cc))) - never in a gap, never
   across two chunks - for all sizes, offsets, counts, element types *)
Theorem C01_chunked_implementor_in_chunk : forall m A L cc gg op c, 1 <= cc -> op_wf op ->
  derive_vm m (C01impl.chunk_gs A L cc gg) L op = Val (Ok c) ->
  exists j, A + j * (cc + gg) <= acc_base c /\
            acc_base c + acc_len c <= A + j * (cc + gg) + N.min cc (L - j * cc).
Proof. exact C01Impl.chunk_in_one_chunk_lemma. Qed.

(* about the checker alone: an observation of a chunked case that the checker accepts shows every
   accessor the implementor answered with inside one chunk *)
Theorem C01impl_chunk_checker_sound : forall ci o ob, C01impl.ci_k ci = C01impl.IK_CHUNK ->
  C01impl.impl_step_ok ci o ob = true -> o_class ob = 0 ->
  exists rk j, result_kind KRegion (s_rq o) = Some rk /\
    j * (C01impl.ci_c ci + C01impl.ci_g ci) <= o_off ob /\
    o_off ob + obs_reach rk o ob <=
      j * (C01impl.ci_c ci + C01impl.ci_g ci) +
      N.min (C01impl.ci_c ci) (c_len (C01impl.ci_case ci) - j * C01impl.ci_c ci).
Proof. exact C01Impl.chunk_checker_sound_lemma. Qed.

(* the model of the provided methods over the four stand-in implementors of the harness (count
   clamped / rest of the memory / one byte short / chunked) satisfies the checker on every case *)
Theorem C01impl_model_ok : forall ci, C01impl.wf_caseimpl ci ->
  C01impl.ok_C01impl ci (C01impl.run_C01impl ci) = true.
Proof. exact C01Impl.C01impl_model_ok_lemma. Qed.

Example C01impl_nonvacuous :
  derive_vm Release (C01impl.impl_gs C01impl.IK_CLAMP 4096 6) 6 (DGetAtomicRef {| e_size := 4; e_align := 4 |} 4) = Panic 264 /\
  derive_vm Release (C01impl.impl_gs C01impl.IK_CLAMP 4096 8) 8 (DGetAtomicRef {| e_size := 4; e_align := 4 |} 4)
    = Val (Ok (AAtomic (TR 4100 4 4))).
Proof. exact C01Impl.impl_clamp_refuses. Qed.

Example C01impl_chunk_nonvacuous :
  derive_vm Release (C01impl.chunk_gs 4096 24 12 4) 24 (DGetAtomicRef {| e_size := 8; e_align := 8 |} 8) = Panic 264 /\
  derive_vm Release (C01impl.chunk_gs 4096 24 12 4) 24 (DGetAtomicRef {| e_size := 8; e_align := 8 |} 0)
    = Val (Ok (AAtomic (TR 4096 8 8))) /\
  derive_vm Release (C01impl.chunk_gs 4096 24 12 4) 24 (DGetRef {| e_size := 8; e_align := 8 |} 12)
    = Val (Ok (ARef (VR 4112 8))).
Proof. exact C01Impl.impl_chunk_refuses. Qed.

Print Assumptions C01_any_implementor_shape.
Print Assumptions C01_chunked_implementor_in_chunk.
Print Assumptions C01impl_chunk_checker_sound.
Print Assumptions C01_any_implementor_contained.
Print Assumptions C01_any_implementor_exact.
Print Assumptions C01impl_model_ok.
