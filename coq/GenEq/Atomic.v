(* w1c - src/atomic_integer.rs impl_atomic_integer_ops! (regenerated: coq/Gen/Atomic.v), CONTRACT lemmas: load / store
   of the AtomicInteger impls forward the value and the memory ORDER unchanged to the std atomic (C06: an access
   requested with an ordering is performed with that ordering). *)
From VM Require Import Prelude.MachInt Prelude.Outcome Prelude.Rs2v.
From VM Require Gen.Atomic.
Lemma geneq_Atomic_atomic_load : forall (ORD R : Type) (std : ORD -> R) order,
  Gen.Atomic.atomic_load std order = std order.
Proof. reflexivity. Qed.
Lemma geneq_Atomic_atomic_store : forall (ORD R : Type) (std : N -> ORD -> R) val order,
  Gen.Atomic.atomic_store std val order = std val order.
Proof. reflexivity. Qed.
