(* Static tie for the concurrent model of src/bitmap/backend/atomic_bitmap.rs (coq/Impl/BitmapConc.v, C08):
   every library operation is a straight-line program of atomic primitives; the programs are built from
   the same kernels rs2v regenerates for the sequential model (coq/Gen/AtomicBitmap.v):
     set_bit / reset_bit            guard, word index, mask                                   (:111-126)
     is_bit_set                     guard, the one load                                       (:54-61)
     set_reset_addr_range           len == 0, first / last bit, ONE iteration of the bit loop (:79-101)
     set_addr_range / reset_addr_range / Bitmap::mark_dirty                      delegation  (:71, :106, :176)
     get_and_reset / reset / clone  the per-word primitive: fetch_and(0) / store(0) / load    (:139-169)
   A generated call `Call name [word; operand]` is the primitive of that name on that word. *)
From Coq Require Import String.
From VM Require Import Prelude.MachInt Prelude.Outcome Prelude.Rs2v Impl.Bitmap Impl.BitmapConc.
From VM Require Proofs.C09 Gen.AtomicBitmap.

Lemma shl64_bit_mask i : shl64 1 (N.land i 63) = bit_mask i.
Proof.
  unfold shl64. fold (bit_mask i). rewrite Proofs.C09.bit_mask_eq.
  apply N.mod_small. apply Proofs.C09.pow2_lt_W64, Proofs.C09.mod64_lt.
Qed.

(* calls that name their word: fetch_or / fetch_and on self.map[i] *)
Definition prims_of (l : list call) : list prim :=
  flat_map (fun c => match c with
                     | Call name [w; operand] =>
                         if str_eqb name "fetch_or" then [FetchOr w operand]
                         else if str_eqb name "fetch_and" then [FetchAnd w operand] else []
                     | _ => [] end) l.
(* per-word calls (the word is the iteration variable) *)
Definition prim_at (w : N) (l : list call) : list prim :=
  flat_map (fun c => match c with
                     | Call name [operand] =>
                         if str_eqb name "fetch_and" then [FetchAnd w operand]
                         else if str_eqb name "store" then [Store w operand] else []
                     | Call name [] => if str_eqb name "load" then [Load w] else []
                     | _ => [] end) l.

Lemma geneq_BitmapConc_set_bit : forall g i,
  prog_of g (CSetBit i) = prims_of (Gen.AtomicBitmap.set_bit (g_size g) i).
Proof.
  intros. unfold prog_of, Gen.AtomicBitmap.set_bit. destruct (g_size g <=? i); [reflexivity|].
  cbn. rewrite shl64_bit_mask. reflexivity.
Qed.
Lemma geneq_BitmapConc_reset_bit : forall g i,
  prog_of g (CResetBit i) = prims_of (Gen.AtomicBitmap.reset_bit (g_size g) i).
Proof.
  intros. unfold prog_of, Gen.AtomicBitmap.reset_bit. destruct (g_size g <=? i); [reflexivity|].
  cbn. rewrite shl64_bit_mask. reflexivity.
Qed.

(* is_bit_set: the program is one load of word index >> 6 exactly when the generated function consults
   the map (its result then depends on the loaded word), and nothing otherwise *)
Lemma geneq_BitmapConc_is_bit_set : forall g i,
  match prog_of g (CIsBitSet i) with
  | [Load w] => forall ld, Gen.AtomicBitmap.is_bit_set (g_size g) ld i = negb (N.land (ld w) (bit_mask i) =? 0)
  | [] => forall ld, Gen.AtomicBitmap.is_bit_set (g_size g) ld i = false
  | _ => False
  end.
Proof.
  intros. unfold prog_of, Gen.AtomicBitmap.is_bit_set. geneq_norm.
  destruct (i <? g_size g); cbn [negb]; [|reflexivity].
  intros ld. rewrite ?shl64_bit_mask. reflexivity.
Qed.

(* set_reset_addr_range: the early return and the (first_bit, last_bit) the loop runs over *)
Lemma geneq_BitmapConc_range_bits : forall m g start len set,
  exists r, Gen.AtomicBitmap.range_bits m (g_ps g) start len set = Val r /\
    set_reset_prog g start len set =
    match r with
    | None => []
    | Some (first_bit, last_bit) => range_prog (S (S (N.to_nat (g_size g)))) first_bit last_bit (g_size g) set
    end.
Proof.
  intros. unfold Gen.AtomicBitmap.range_bits, set_reset_prog.
  destruct (N.eqb_spec len 0) as [H0|H0].
  - eexists; split; reflexivity.
  - dassert_discharge. cbn [bind]. rewrite psub_Val by lia. cbn [bind]. eexists; split; reflexivity.
Qed.

(* ONE iteration of the bit loop for n <= last_bit *)
Lemma geneq_BitmapConc_range_body : forall f n last size set, n <= last ->
  range_prog (S f) n last size set =
  match Gen.AtomicBitmap.range_body size set n with
  | (_, KBreak _) => []
  | (calls, KNext _) => prims_of calls ++ range_prog f (n + 1) last size set
  | (_, KReturn _) => []
  end.
Proof.
  intros f n last size set Hle. cbn [range_prog].
  destruct (N.ltb_spec last n) as [Hlt|_]; [lia|].
  unfold Gen.AtomicBitmap.range_body. destruct (size <=? n); [reflexivity|].
  destruct set; cbn; rewrite shl64_bit_mask; reflexivity.
Qed.

(* the delegations *)
Definition prog_of_range_call (g : geom) (l : list call) : list prim :=
  match l with
  | [Call name [a; len]] => if str_eqb name "set_addr_range" then set_reset_prog g a len true else []
  | [Call name [a; len; s]] =>
      if str_eqb name "set_reset_addr_range" then set_reset_prog g a len (negb (s =? 0)) else []
  | _ => []
  end.
Lemma geneq_BitmapConc_set_addr_range : forall g a len,
  prog_of g (CSetRange a len) = prog_of_range_call g (Gen.AtomicBitmap.set_addr_range a len).
Proof. reflexivity. Qed.
Lemma geneq_BitmapConc_reset_addr_range : forall g a len,
  prog_of g (CResetRange a len) = prog_of_range_call g (Gen.AtomicBitmap.reset_addr_range a len).
Proof. reflexivity. Qed.
Lemma geneq_BitmapConc_bm_mark_dirty : forall g a len,
  prog_of g (CSetRange a len) = prog_of_range_call g (Gen.AtomicBitmap.bm_mark_dirty a len).
Proof. reflexivity. Qed.

(* the whole-map operations: one primitive per word, in word order *)
Lemma geneq_BitmapConc_get_and_reset_word : forall g,
  prog_of g CHarvest = flat_map (fun w => prim_at w Gen.AtomicBitmap.get_and_reset_word) (word_ids g).
Proof.
  intros. unfold prog_of. induction (word_ids g) as [|w t IH]; [reflexivity|].
  cbn [map flat_map]. rewrite IH. reflexivity.
Qed.
Lemma geneq_BitmapConc_reset_word : forall g,
  snd Gen.AtomicBitmap.reset_word = KNext tt /\
  prog_of g CReset = flat_map (fun w => prim_at w (fst Gen.AtomicBitmap.reset_word)) (word_ids g).
Proof.
  intros. split; [reflexivity|]. unfold prog_of. induction (word_ids g) as [|w t IH]; [reflexivity|].
  cbn [map flat_map]. rewrite IH. reflexivity.
Qed.
Lemma geneq_BitmapConc_clone_word : forall g,
  prog_of g CClone = flat_map (fun w => prim_at w Gen.AtomicBitmap.clone_word) (word_ids g).
Proof.
  intros. unfold prog_of. induction (word_ids g) as [|w t IH]; [reflexivity|].
  cbn [map flat_map]. rewrite IH. reflexivity.
Qed.
