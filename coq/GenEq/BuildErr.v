(* Shared by GenEq/Mmap.v, GenEq/MmapUnix.v, GenEq/Xen.v: how the generated code's error values
   (E "<Variant>" payload) relate to the error type of coq/Impl/MmapBuild.v.  Definitions only - no
   lemma about generated code lives here, so this file never breaks when the Rust source changes. *)
From Coq Require Import String.
From VM Require Import Prelude.MachInt Prelude.Outcome Prelude.Rs2v.
From VM Require Impl.MmapBuild.

Definition berr_name (e : Impl.MmapBuild.berr) : string :=
  match e with
  | Impl.MmapBuild.InvalidOffsetLength => "InvalidOffsetLength"
  | Impl.MmapBuild.InvalidPointer => "InvalidPointer"
  | Impl.MmapBuild.MapFixed => "MapFixed"
  | Impl.MmapBuild.MappingPastEof => "MappingPastEof"
  | Impl.MmapBuild.MmapErr => "Mmap"
  | Impl.MmapBuild.InvalidGuestRegion => "InvalidGuestRegion"
  | Impl.MmapBuild.InvalidFileOffset => "InvalidFileOffset"
  | Impl.MmapBuild.MappedInAdvance => "MappedInAdvance"
  | Impl.MmapBuild.MmapFlags => "MmapFlags"
  | Impl.MmapBuild.UnexpectedError => "UnexpectedError"
  end.
Definition bres_gen {A B} (f : A -> B) (r : Impl.MmapBuild.res A) : rres B :=
  match r with
  | Impl.MmapBuild.Ok a => ROk (f a)
  | Impl.MmapBuild.Err e => RErr (E (berr_name e) [])
  end.

