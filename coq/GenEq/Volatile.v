(* Static tie for the geometry kernels of src/volatile_memory.rs: compute_offset,
   VolatileMemory::compute_end_offset, alignment, VolatileSlice::check_alignment, regenerated
   by rs2v (coq/Gen/Volatile.v), against the hand models of C01 (Impl/Volatile.v, errors with
   payload), C06 (Impl/CopyPlan.v, error classes only) and C04 (Impl/VolMem.v, error classes).  The generated code reports an error
   as E "<Variant>" [payload sorted by field name]; [verr_gen] / [cp_abs] relate that to the
   model's own error types. *)
From Coq Require Import String.
From VM Require Import Prelude.MachInt Prelude.Outcome Prelude.Rs2v.
From VM Require Impl.Volatile Impl.CopyPlan Impl.VolMem Gen.Volatile.

(* ---------------------------------------------------------------- C01: Impl/Volatile.v *)
Definition verr_gen (e : Impl.Volatile.verr) : rerr :=
  match e with
  | Impl.Volatile.EOutOfBounds a => E "OutOfBounds" [a]
  | Impl.Volatile.EOverflow b o => E "Overflow" [b; o]
  | Impl.Volatile.ETooBig n s => E "TooBig" [n; s]
  | Impl.Volatile.EMisaligned a al => E "Misaligned" [a; al]
  end.
Definition vres_gen {A} (r : Impl.Volatile.vresult A) : rres A :=
  match r with Impl.Volatile.Ok a => ROk a | Impl.Volatile.Err e => RErr (verr_gen e) end.

Lemma geneq_Volatile_compute_offset : forall base offset,
  Gen.Volatile.compute_offset base offset = vres_gen (Impl.Volatile.compute_offset base offset).
Proof.
  intros. unfold Gen.Volatile.compute_offset, Impl.Volatile.compute_offset.
  destruct (checked_add base offset); reflexivity.
Qed.

Lemma geneq_Volatile_compute_end_offset : forall len base offset,
  Gen.Volatile.compute_end_offset len base offset
  = vres_gen (Impl.Volatile.compute_end_offset len base offset).
Proof.
  intros. unfold Gen.Volatile.compute_end_offset, Impl.Volatile.compute_end_offset.
  rewrite geneq_Volatile_compute_offset.
  destruct (Impl.Volatile.compute_offset base offset) as [e|e]; cbn [vres_gen].
  - destruct (len <? e); reflexivity.
  - reflexivity.
Qed.

Lemma geneq_Volatile_check_alignment : forall m s al,
  oeq (Gen.Volatile.check_alignment m (Impl.Volatile.vs_addr s) al)
      (omap vres_gen (Impl.Volatile.vs_check_alignment m s al)).
Proof.
  intros. unfold Gen.Volatile.check_alignment, Impl.Volatile.vs_check_alignment.
  oeq_cases.
Qed.

(* ---------------------------------------------------------------- C06: Impl/CopyPlan.v *)
Definition cp_abs {A} (r : rres A) : option (Impl.CopyPlan.result A) :=
  match r with
  | ROk a => Some (Impl.CopyPlan.Ok a)
  | RErr (E v _) =>
      if String.eqb v "Overflow" then Some (Impl.CopyPlan.Err Impl.CopyPlan.EOverflow)
      else if String.eqb v "OutOfBounds" then Some (Impl.CopyPlan.Err Impl.CopyPlan.EOutOfBounds)
      else if String.eqb v "Misaligned" then Some (Impl.CopyPlan.Err Impl.CopyPlan.EMisaligned)
      else None
  end.

Lemma geneq_CopyPlan_alignment : forall m addr,
  oeq (Gen.Volatile.alignment m addr) (Impl.CopyPlan.alignment m addr).
Proof. intros. unfold Gen.Volatile.alignment, Impl.CopyPlan.alignment. oeq_auto. Qed.

Lemma geneq_CopyPlan_compute_offset : forall base offset,
  cp_abs (Gen.Volatile.compute_offset base offset) = Some (Impl.CopyPlan.compute_offset base offset).
Proof.
  intros. unfold Gen.Volatile.compute_offset, Impl.CopyPlan.compute_offset.
  destruct (checked_add base offset); reflexivity.
Qed.

Lemma geneq_CopyPlan_compute_end_offset : forall len base offset,
  cp_abs (Gen.Volatile.compute_end_offset len base offset)
  = Some (Impl.CopyPlan.compute_end_offset len base offset).
Proof.
  intros. unfold Gen.Volatile.compute_end_offset, Impl.CopyPlan.compute_end_offset,
    Gen.Volatile.compute_offset, Impl.CopyPlan.compute_offset.
  destruct (checked_add base offset) as [e|]; [destruct (len <? e)|]; reflexivity.
Qed.

Lemma geneq_CopyPlan_check_alignment : forall m s al,
  oeq (omap cp_abs (Gen.Volatile.check_alignment m (Impl.CopyPlan.vs_addr s) al))
      (omap Some (Impl.CopyPlan.check_alignment m s al)).
Proof.
  intros. unfold Gen.Volatile.check_alignment, Impl.CopyPlan.check_alignment.
  oeq_cases.
Qed.

(* ---------------------------------------------------------------- C04: Impl/VolMem.v *)
Definition vm_abs {A} (r : rres A) : option (Impl.VolMem.result A) :=
  match r with
  | ROk a => Some (Impl.VolMem.Ok a)
  | RErr (E v _) =>
      if String.eqb v "Overflow" then Some (Impl.VolMem.Err Impl.VolMem.EOverflow)
      else if String.eqb v "OutOfBounds" then Some (Impl.VolMem.Err Impl.VolMem.EOutOfBounds)
      else if String.eqb v "Misaligned" then Some (Impl.VolMem.Err Impl.VolMem.EMisaligned)
      else None
  end.

Lemma geneq_VolMem_compute_offset : forall base offset,
  vm_abs (Gen.Volatile.compute_offset base offset) = Some (Impl.VolMem.compute_offset base offset).
Proof.
  intros. unfold Gen.Volatile.compute_offset, Impl.VolMem.compute_offset.
  destruct (checked_add base offset); reflexivity.
Qed.

Lemma geneq_VolMem_compute_end_offset : forall len base offset,
  vm_abs (Gen.Volatile.compute_end_offset len base offset)
  = Some (Impl.VolMem.compute_end_offset len base offset).
Proof.
  intros. unfold Gen.Volatile.compute_end_offset, Impl.VolMem.compute_end_offset,
    Gen.Volatile.compute_offset, Impl.VolMem.compute_offset.
  destruct (checked_add base offset) as [e|]; [destruct (len <? e)|]; reflexivity.
Qed.

(* the model's slice address is an offset into a heap based at hb *)
Lemma geneq_VolMem_check_alignment : forall m hb s al,
  oeq (omap vm_abs (Gen.Volatile.check_alignment m (hb + Impl.VolMem.vs_addr s) al))
      (omap Some (Impl.VolMem.vs_check_alignment m hb s al)).
Proof.
  intros. unfold Gen.Volatile.check_alignment, Impl.VolMem.vs_check_alignment.
  oeq_cases.
Qed.
