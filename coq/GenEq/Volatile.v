(* Static tie for the geometry kernels of src/volatile_memory.rs: compute_offset,
   VolatileMemory::compute_end_offset, alignment, VolatileSlice::check_alignment, regenerated
   by rs2v (coq/Gen/Volatile.v), against the hand models of C01 (Impl/Volatile.v, errors with
   payload), C06 (Impl/CopyPlan.v, error classes only) and C04 (Impl/VolMem.v, error classes).  The generated code reports an error
   as E "<Variant>" [payload sorted by field name]; [verr_gen] / [cp_abs] relate that to the
   model's own error types. *)
From Coq Require Import String.
From VM Require Import Prelude.MachInt Prelude.Outcome Prelude.Rs2v.
From VM Require Impl.Volatile Impl.CopyPlan Impl.VolMem Gen.Volatile.

(* ---------------------------------------------------------------- C01: Impl/Volatile.v *)
Definition verr_gen (e : Impl.Volatile.verr) : rerr :=
  match e with
  | Impl.Volatile.EOutOfBounds a => E "OutOfBounds" [a]
  | Impl.Volatile.EOverflow b o => E "Overflow" [b; o]
  | Impl.Volatile.ETooBig n s => E "TooBig" [n; s]
  | Impl.Volatile.EMisaligned a al => E "Misaligned" [a; al]
  end.
Definition vres_gen {A} (r : Impl.Volatile.vresult A) : rres A :=
  match r with Impl.Volatile.Ok a => ROk a | Impl.Volatile.Err e => RErr (verr_gen e) end.

Lemma geneq_Volatile_compute_offset : forall base offset,
  Gen.Volatile.compute_offset base offset = vres_gen (Impl.Volatile.compute_offset base offset).
Proof.
  intros. unfold Gen.Volatile.compute_offset, Impl.Volatile.compute_offset.
  destruct (checked_add base offset); reflexivity.
Qed.

Lemma geneq_Volatile_compute_end_offset : forall len base offset,
  Gen.Volatile.compute_end_offset len base offset
  = vres_gen (Impl.Volatile.compute_end_offset len base offset).
Proof.
  intros. unfold Gen.Volatile.compute_end_offset, Impl.Volatile.compute_end_offset.
  rewrite geneq_Volatile_compute_offset.
  destruct (Impl.Volatile.compute_offset base offset) as [e|e]; cbn [vres_gen].
  - destruct (len <? e); reflexivity.
  - reflexivity.
Qed.

Lemma geneq_Volatile_check_alignment : forall m s al,
  oeq (Gen.Volatile.check_alignment m (Impl.Volatile.vs_addr s) al)
      (omap vres_gen (Impl.Volatile.vs_check_alignment m s al)).
Proof.
  intros. unfold Gen.Volatile.check_alignment, Impl.Volatile.vs_check_alignment.
  oeq_cases.
Qed.

(* ---------------------------------------------------------------- C06: Impl/CopyPlan.v *)
Definition cp_abs {A} (r : rres A) : option (Impl.CopyPlan.result A) :=
  match r with
  | ROk a => Some (Impl.CopyPlan.Ok a)
  | RErr (E v _) =>
      if String.eqb v "Overflow" then Some (Impl.CopyPlan.Err Impl.CopyPlan.EOverflow)
      else if String.eqb v "OutOfBounds" then Some (Impl.CopyPlan.Err Impl.CopyPlan.EOutOfBounds)
      else if String.eqb v "Misaligned" then Some (Impl.CopyPlan.Err Impl.CopyPlan.EMisaligned)
      else None
  end.

Lemma geneq_CopyPlan_alignment : forall m addr,
  oeq (Gen.Volatile.alignment m addr) (Impl.CopyPlan.alignment m addr).
Proof. intros. unfold Gen.Volatile.alignment, Impl.CopyPlan.alignment. oeq_auto. Qed.

Lemma geneq_CopyPlan_compute_offset : forall base offset,
  cp_abs (Gen.Volatile.compute_offset base offset) = Some (Impl.CopyPlan.compute_offset base offset).
Proof.
  intros. unfold Gen.Volatile.compute_offset, Impl.CopyPlan.compute_offset.
  destruct (checked_add base offset); reflexivity.
Qed.

Lemma geneq_CopyPlan_compute_end_offset : forall len base offset,
  cp_abs (Gen.Volatile.compute_end_offset len base offset)
  = Some (Impl.CopyPlan.compute_end_offset len base offset).
Proof.
  intros. unfold Gen.Volatile.compute_end_offset, Impl.CopyPlan.compute_end_offset,
    Gen.Volatile.compute_offset, Impl.CopyPlan.compute_offset.
  destruct (checked_add base offset) as [e|]; [destruct (len <? e)|]; reflexivity.
Qed.

Lemma geneq_CopyPlan_check_alignment : forall m s al,
  oeq (omap cp_abs (Gen.Volatile.check_alignment m (Impl.CopyPlan.vs_addr s) al))
      (omap Some (Impl.CopyPlan.check_alignment m s al)).
Proof.
  intros. unfold Gen.Volatile.check_alignment, Impl.CopyPlan.check_alignment.
  oeq_cases.
Qed.

(* ---------------------------------------------------------------- C04: Impl/VolMem.v *)
Definition vm_abs {A} (r : rres A) : option (Impl.VolMem.result A) :=
  match r with
  | ROk a => Some (Impl.VolMem.Ok a)
  | RErr (E v _) =>
      if String.eqb v "Overflow" then Some (Impl.VolMem.Err Impl.VolMem.EOverflow)
      else if String.eqb v "OutOfBounds" then Some (Impl.VolMem.Err Impl.VolMem.EOutOfBounds)
      else if String.eqb v "Misaligned" then Some (Impl.VolMem.Err Impl.VolMem.EMisaligned)
      else None
  end.

Lemma geneq_VolMem_compute_offset : forall base offset,
  vm_abs (Gen.Volatile.compute_offset base offset) = Some (Impl.VolMem.compute_offset base offset).
Proof.
  intros. unfold Gen.Volatile.compute_offset, Impl.VolMem.compute_offset.
  destruct (checked_add base offset); reflexivity.
Qed.

Lemma geneq_VolMem_compute_end_offset : forall len base offset,
  vm_abs (Gen.Volatile.compute_end_offset len base offset)
  = Some (Impl.VolMem.compute_end_offset len base offset).
Proof.
  intros. unfold Gen.Volatile.compute_end_offset, Impl.VolMem.compute_end_offset,
    Gen.Volatile.compute_offset, Impl.VolMem.compute_offset.
  destruct (checked_add base offset) as [e|]; [destruct (len <? e)|]; reflexivity.
Qed.

(* the model's slice address is an offset into a heap based at hb *)
Lemma geneq_VolMem_check_alignment : forall m hb s al,
  oeq (omap vm_abs (Gen.Volatile.check_alignment m (hb + Impl.VolMem.vs_addr s) al))
      (omap Some (Impl.VolMem.vs_check_alignment m hb s al)).
Proof.
  intros. unfold Gen.Volatile.check_alignment, Impl.VolMem.vs_check_alignment.
  oeq_cases.
Qed.

(* =============================================================================================
   Step kernels of src/volatile_memory.rs (second round): slice geometry, the guards of
   Bytes<usize> for VolatileSlice, get_array_ref's size computation, VolatileArrayRef geometry,
   the count computations of copy_to / copy_from. *)
Ltac oeq_fin := first [ apply oeq_refl | reflexivity | exact I ].
Lemma bind_bind {X Y Z} (x : outcome X) (f : X -> outcome Y) (g : Y -> outcome Z) :
  bind (bind x f) g = bind x (fun a => bind (f a) g).
Proof. destruct x; reflexivity. Qed.

(* ---------------------------------------------------------------- C01: Impl/Volatile.v *)
Definition vsl_gen (r : Impl.Volatile.vresult Impl.Volatile.vslice) : rres (N * N) :=
  vres_gen (match r with
            | Impl.Volatile.Ok s => Impl.Volatile.Ok (Impl.Volatile.vs_addr s, Impl.Volatile.vs_size s)
            | Impl.Volatile.Err e => Impl.Volatile.Err e end).

(* offset (:514-535): new address / size or Overflow / OutOfBounds with their payloads *)
Lemma geneq_Volatile_vs_offset : forall m s count,
  Val (Gen.Volatile.vs_offset (Impl.Volatile.vs_addr s) (Impl.Volatile.vs_size s) count)
  = omap vsl_gen (Impl.Volatile.vs_offset m s count).
Proof.
  intros. unfold Gen.Volatile.vs_offset, Impl.Volatile.vs_offset.
  destruct (checked_add (Impl.Volatile.vs_addr s) count); [|reflexivity].
  destruct (checked_sub (Impl.Volatile.vs_size s) count); reflexivity.
Qed.

(* subslice (:494-507) *)
Lemma geneq_Volatile_vs_subslice : forall m s offset count,
  Val (Gen.Volatile.vs_subslice (Impl.Volatile.vs_len s) (Impl.Volatile.vs_addr s) offset count)
  = omap vsl_gen (Impl.Volatile.vs_subslice m s offset count).
Proof.
  intros. unfold Gen.Volatile.vs_subslice, Impl.Volatile.vs_subslice.
  rewrite geneq_Volatile_compute_end_offset.
  destruct (Impl.Volatile.compute_end_offset (Impl.Volatile.vs_len s) offset count); reflexivity.
Qed.

(* split_at (:480-487): (start, end) = ((addr, mid), offset(mid)) *)
Lemma geneq_Volatile_vs_split_at : forall m s mid,
  Val (Gen.Volatile.vs_split_at (Impl.Volatile.vs_addr s) (Impl.Volatile.vs_size s) mid)
  = omap (fun r => vres_gen
            (match r with
             | Impl.Volatile.Ok (a, b) =>
                 Impl.Volatile.Ok ((Impl.Volatile.vs_addr a, Impl.Volatile.vs_size a),
                                   (Impl.Volatile.vs_addr b, Impl.Volatile.vs_size b))
             | Impl.Volatile.Err e => Impl.Volatile.Err e end))
         (Impl.Volatile.vs_split_at m s mid).
Proof.
  intros. unfold Gen.Volatile.vs_split_at, Impl.Volatile.vs_split_at.
  pose proof (geneq_Volatile_vs_offset m s mid) as H.
  destruct (Impl.Volatile.vs_offset m s mid) as [r| |]; cbn [omap] in H; try discriminate H.
  injection H as H. rewrite H. cbn [bind omap].
  destruct r as [e|e]; reflexivity.
Qed.

(* get_array_ref (:152-186): nbytes = n * size_of::<T>() when both n and the product fit an
   isize, else TooBig { nelements: n, size }.  size_of::<T>() <= isize::MAX holds for every Rust
   type (hypothesis). *)
Lemma geneq_Volatile_get_array_ref_nbytes : forall gs T offset n,
  Impl.Volatile.e_size T <= ISZ_MAX ->
  Impl.Volatile.vm_get_array_ref gs T offset n =
  match Gen.Volatile.get_array_ref_nbytes (Impl.Volatile.e_size T) n with
  | KNext nbytes =>
      let* r := gs offset nbytes in
      match r with
      | Impl.Volatile.Err e => Val (Impl.Volatile.Err e)
      | Impl.Volatile.Ok slice =>
          let* _ := passert 167 (Impl.Volatile.vs_len slice =? nbytes) in
          Val (Impl.Volatile.Ok (Impl.Volatile.VA (Impl.Volatile.vs_addr slice) n (Impl.Volatile.e_size T)))
      end
  | KReturn (RErr (E _ p)) => Val (Impl.Volatile.Err (Impl.Volatile.ETooBig (nth 0 p 0) (nth 1 p 0)))
  | _ => Panic 0
  end.
Proof.
  intros gs T offset n HT. unfold Impl.Volatile.vm_get_array_ref, Gen.Volatile.get_array_ref_nbytes, isize_try_from.
  destruct (N.leb_spec n ISZ_MAX) as [Hn|Hn]; [|reflexivity].
  rewrite checked_mul_i64_nonneg by assumption. unfold Impl.Volatile.checked_mul_isize.
  destruct (n * Impl.Volatile.e_size T <=? ISZ_MAX); reflexivity.
Qed.

(* VolatileArrayRef::ref_at (:1134-1144): the assert and byteofs = element_size * index *)
Lemma geneq_Volatile_va_ref_at_byteofs : forall m a index,
  oeq (let* o := Gen.Volatile.va_ref_at_byteofs m (Impl.Volatile.va_nelem a) (Impl.Volatile.va_esz a) index in
       match o with
       | Some byteofs => let* p := Impl.Volatile.ptr_offset_isize m (Impl.Volatile.va_addr a) byteofs in
                         Val (Impl.Volatile.VR p (Impl.Volatile.va_esz a))
       | None => Panic 0
       end)
      (Impl.Volatile.va_ref_at m a index).
Proof.
  intros. unfold Gen.Volatile.va_ref_at_byteofs, Impl.Volatile.va_ref_at, Impl.Volatile.va_element_size.
  rewrite ?bind_bind. apply oeq_bind; [apply oeq_passert|]. intros _.
  rewrite ?bind_bind. apply oeq_bind; [apply oeq_pmul|]. intro b. cbn [bind]. apply oeq_refl.
Qed.

(* to_slice (:1117-1127), ptr_guard / ptr_guard_mut (:1102-1109): nelem * element_size *)
Lemma geneq_Volatile_va_to_slice : forall m a,
  oeq (Gen.Volatile.va_to_slice m (Impl.Volatile.va_addr a) (Impl.Volatile.va_nelem a) (Impl.Volatile.va_esz a))
      (omap (fun s => (Impl.Volatile.vs_addr s, Impl.Volatile.vs_size s)) (Impl.Volatile.va_to_slice m a)).
Proof.
  intros. unfold Gen.Volatile.va_to_slice, Impl.Volatile.va_to_slice, Impl.Volatile.va_element_size, pmul.
  destruct (_ <? W64), m; oeq_fin.
Qed.
Lemma geneq_Volatile_va_ptr_guard : forall m a,
  oeq (Gen.Volatile.va_ptr_guard m (Impl.Volatile.va_addr a) (Impl.Volatile.va_nelem a) (Impl.Volatile.va_esz a))
      (omap (fun g => (Impl.Volatile.pg_addr g, Impl.Volatile.pg_len g)) (Impl.Volatile.va_ptr_guard m a)).
Proof.
  intros. unfold Gen.Volatile.va_ptr_guard, Impl.Volatile.va_ptr_guard, Impl.Volatile.va_element_size,
    Impl.Volatile.va_len, pmul.
  destruct (_ <? W64), m; oeq_fin.
Qed.
Lemma geneq_Volatile_va_ptr_guard_mut : forall m a,
  oeq (Gen.Volatile.va_ptr_guard_mut m (Impl.Volatile.va_addr a) (Impl.Volatile.va_nelem a) (Impl.Volatile.va_esz a))
      (omap (fun g => (Impl.Volatile.pg_addr g, Impl.Volatile.pg_len g)) (Impl.Volatile.va_ptr_guard m a)).
Proof.
  intros. unfold Gen.Volatile.va_ptr_guard_mut, Impl.Volatile.va_ptr_guard, Impl.Volatile.va_element_size,
    Impl.Volatile.va_len, pmul.
  destruct (_ <? W64), m; oeq_fin.
Qed.

(* ---------------------------------------------------------------- C04: Impl/VolMem.v *)
(* Bytes<usize> for VolatileSlice: the two guards of write (:697-705) and read (:726-734).
   KReturn = the value returned by the guard; KNext = both guards passed and the model continues
   with offset(addr) and the copy *)
Lemma geneq_VolMem_vs_write_guard : forall hb h s buf addr,
  match Gen.Volatile.vs_write_guard (Impl.VolMem.len buf =? 0) (Impl.VolMem.vs_size s) addr with
  | KReturn r => Some (Impl.VolMem.vs_write hb h s buf addr) = option_map (fun x => (h, x)) (vm_abs r)
  | KNext _ =>
      Impl.VolMem.vs_write hb h s buf addr =
      match Impl.VolMem.vs_offset hb s addr with
      | Impl.VolMem.Err e => (h, Impl.VolMem.Err e)
      | Impl.VolMem.Ok sl =>
          let total := N.min (Impl.VolMem.vs_size sl) (Impl.VolMem.len buf) in
          let '(h', n) := Impl.VolMem.copy_to_volatile_slice h sl buf total in (h', Impl.VolMem.Ok n)
      end
  | KBreak _ => False
  end.
Proof.
  intros. unfold Gen.Volatile.vs_write_guard, Impl.VolMem.vs_write.
  destruct (Impl.VolMem.len buf =? 0); [reflexivity|].
  destruct (Impl.VolMem.vs_size s <=? addr); reflexivity.
Qed.
Lemma geneq_VolMem_vs_read_guard : forall hb h s buf addr,
  match Gen.Volatile.vs_read_guard (Impl.VolMem.len buf =? 0) (Impl.VolMem.vs_size s) addr with
  | KReturn r => Some (Impl.VolMem.vs_read hb h s buf addr) = option_map (fun x => (buf, x)) (vm_abs r)
  | KNext _ =>
      Impl.VolMem.vs_read hb h s buf addr =
      match Impl.VolMem.vs_offset hb s addr with
      | Impl.VolMem.Err e => (buf, Impl.VolMem.Err e)
      | Impl.VolMem.Ok sl =>
          let total := N.min (Impl.VolMem.vs_size sl) (Impl.VolMem.len buf) in
          let '(b', n) := Impl.VolMem.copy_from_volatile_slice h buf sl total in (b', Impl.VolMem.Ok n)
      end
  | KBreak _ => False
  end.
Proof.
  intros. unfold Gen.Volatile.vs_read_guard, Impl.VolMem.vs_read.
  destruct (Impl.VolMem.len buf =? 0); [reflexivity|].
  destruct (Impl.VolMem.vs_size s <=? addr); reflexivity.
Qed.

(* offset as modelled in VolMem (slice addresses are offsets into a heap based at hb; the model's
   new address is not reduced mod 2^64, which agrees whenever the checked_add succeeded) *)
Lemma geneq_VolMem_vs_offset : forall hb s count,
  match Gen.Volatile.vs_offset (hb + Impl.VolMem.vs_addr s) (Impl.VolMem.vs_size s) count,
        Impl.VolMem.vs_offset hb s count with
  | ROk (a, sz), Impl.VolMem.Ok sl => a = hb + Impl.VolMem.vs_addr sl /\ sz = Impl.VolMem.vs_size sl
  | RErr e, Impl.VolMem.Err e' => vm_abs (A:=unit) (RErr e) = Some (Impl.VolMem.Err e')
  | _, _ => False
  end.
Proof.
  intros. unfold Gen.Volatile.vs_offset, Impl.VolMem.vs_offset, checked_add.
  destruct (N.ltb_spec (hb + Impl.VolMem.vs_addr s + count) W64) as [Hlt|Hge]; [|reflexivity].
  destruct (checked_sub (Impl.VolMem.vs_size s) count); [|reflexivity].
  cbn [Impl.VolMem.vs_addr Impl.VolMem.vs_size]. split; [|reflexivity].
  unfold ptr_add. rewrite N.mod_small by assumption. lia.
Qed.

(* get_array_ref's size computation as modelled in VolMem *)
Lemma geneq_VolMem_get_array_ref_nbytes : forall s size offset n, size <= ISZ_MAX ->
  Impl.VolMem.vs_get_array_ref s size offset n =
  match Gen.Volatile.get_array_ref_nbytes size n with
  | KNext nb =>
      match Impl.VolMem.vs_get_slice s offset nb with
      | Impl.VolMem.Err e => Val (Impl.VolMem.Err e)
      | Impl.VolMem.Ok slice => let* _ := passert 167 (Impl.VolMem.vs_size slice =? nb) in
                                Val (Impl.VolMem.Ok {| Impl.VolMem.va_addr := Impl.VolMem.vs_addr slice; Impl.VolMem.va_nelem := n |})
      end
  | KReturn (RErr (E v _)) =>
      if String.eqb v "TooBig" then Val (Impl.VolMem.Err Impl.VolMem.ETooBig) else Panic 0
  | _ => Panic 0
  end.
Proof.
  intros s size offset n HT. unfold Impl.VolMem.vs_get_array_ref, Gen.Volatile.get_array_ref_nbytes, isize_try_from.
  destruct (N.leb_spec n ISZ_MAX) as [Hn|Hn]; [|reflexivity].
  rewrite checked_mul_i64_nonneg by assumption.
  destruct (n * size <=? ISZ_MAX); reflexivity.
Qed.

(* VolatileSlice::copy_to (:558-583): which of the three branches runs and with which count.
   The opaque continuations are instantiated with the model's own continuations. *)
Lemma geneq_VolMem_vs_copy_to : forall m h s t buf,
  oeq (let* x := Gen.Volatile.vs_copy_to m (Impl.VolMem.ty_size t) (Impl.VolMem.len buf)
                   (Impl.VolMem.vs_size s) (Impl.VolMem.vs_size s)
                   (fun total => Val (Impl.VolMem.copy_from_volatile_slice h buf s total))
                   (fun count => let* r := Impl.VolMem.vs_get_array_ref s (Impl.VolMem.ty_size t) 0 count in
                                 match r with
                                 | Impl.VolMem.Err _ => Panic 579
                                 | Impl.VolMem.Ok source => Impl.VolMem.va_copy_to m h source t buf end)
                   (fun n => Val (buf, n)) in x)
      (Impl.VolMem.vs_copy_to m h s t buf).
Proof.
  intros. unfold Gen.Volatile.vs_copy_to, Impl.VolMem.vs_copy_to.
  destruct (Impl.VolMem.ty_size t =? 1); [dassert_discharge; apply oeq_refl|].
  destruct (Impl.VolMem.ty_size t =? 0); [apply oeq_refl|].
  unfold pdiv. destruct (Impl.VolMem.ty_size t =? 0); cbn [bind]; oeq_fin.
Qed.

Definition one_call (l : list call) : option (string * N) :=
  match l with [Call name [x]] => Some (name, x) | _ => None end.

(* VolatileSlice::copy_from (:640-664) *)
Lemma geneq_VolMem_vs_copy_from : forall m h s t buf,
  oeq (let* l := Gen.Volatile.vs_copy_from m (Impl.VolMem.ty_size t) (Impl.VolMem.len buf)
                   (Impl.VolMem.vs_size s) (Impl.VolMem.vs_size s) in
       match l with
       | [] => Val h
       | [Call name [x]] =>
           if String.eqb name "copy_to_volatile_slice"
           then Val (fst (Impl.VolMem.copy_to_volatile_slice h s buf x))
           else let* r := Impl.VolMem.vs_get_array_ref s (Impl.VolMem.ty_size t) 0 x in
                match r with
                | Impl.VolMem.Err _ => Panic 659
                | Impl.VolMem.Ok dest => Impl.VolMem.va_copy_from m h dest t buf end
       | _ => Panic 0
       end)
      (Impl.VolMem.vs_copy_from m h s t buf).
Proof.
  intros. unfold Gen.Volatile.vs_copy_from, Impl.VolMem.vs_copy_from, ocons.
  destruct (Impl.VolMem.ty_size t =? 1); [apply oeq_refl|].
  destruct (Impl.VolMem.ty_size t =? 0) eqn:E0; cbn [negb]; [apply oeq_refl|].
  unfold pdiv. rewrite E0. cbn [bind String.eqb]. oeq_fin.
Qed.

(* VolatileArrayRef::copy_to (:1178-1212): byte fast path through to_slice() vs the element loop
   under the ptr_guard (len * element_size may overflow: panic in debug) with total = min *)
Lemma geneq_VolMem_va_copy_to : forall m h a t buf,
  oeq (let* x := Gen.Volatile.va_copy_to m (Impl.VolMem.ty_size t) (Impl.VolMem.len buf)
                   (Impl.VolMem.va_addr a) (Impl.VolMem.va_nelem a) (Impl.VolMem.ty_size t)
                   (fun src total => Val (Impl.VolMem.copy_from_volatile_slice h buf
                        {| Impl.VolMem.vs_addr := fst src; Impl.VolMem.vs_size := snd src |} total))
                   (fun total => Val (Impl.VolMem.va_read_loop h t (Impl.VolMem.va_addr a) (N.to_nat total)
                                      ++ Impl.VolMem.dropN total buf, total)) in x)
      (Impl.VolMem.va_copy_to m h a t buf).
Proof.
  intros. unfold Gen.Volatile.va_copy_to, Impl.VolMem.va_copy_to, Gen.Volatile.va_to_slice,
    Gen.Volatile.va_ptr_guard, Impl.VolMem.va_to_slice, pmul.
  destruct (Impl.VolMem.ty_size t =? 1);
    destruct (_ <? W64), m; cbn [bind fst snd Impl.VolMem.vs_size]; oeq_fin.
Qed.

(* VolatileArrayRef::copy_from (:1266-1298) *)
Lemma geneq_VolMem_va_copy_from : forall m h a t buf copied,
  oeq (let* l := Gen.Volatile.va_copy_from m (Impl.VolMem.ty_size t) (Impl.VolMem.len buf)
                   (Impl.VolMem.va_addr a) (Impl.VolMem.va_nelem a) (Impl.VolMem.ty_size t) copied in
       match l with
       | [Call name [x]] =>
           if String.eqb name "copy_to_volatile_slice"
           then let* d := Impl.VolMem.va_to_slice m a (Impl.VolMem.ty_size t) in
                Val (fst (Impl.VolMem.copy_to_volatile_slice h d buf x))
           else Panic 0
       | [Call name [_; _]] =>
           Val (Impl.VolMem.va_write_loop h t (Impl.VolMem.va_addr a) (Impl.VolMem.takeN (Impl.VolMem.va_nelem a) buf))
       | _ => Panic 0
       end)
      (Impl.VolMem.va_copy_from m h a t buf).
Proof.
  intros. unfold Gen.Volatile.va_copy_from, Impl.VolMem.va_copy_from, Gen.Volatile.va_to_slice,
    Gen.Volatile.va_ptr_guard_mut, Impl.VolMem.va_to_slice, pmul, ocons.
  destruct (Impl.VolMem.ty_size t =? 1);
    destruct (_ <? W64), m; cbn [bind fst snd Impl.VolMem.vs_size String.eqb]; oeq_fin.
Qed.
