(* Static tie for src/endian.rs: every instance of endian_type! (Le16 Le32 Le64 LeSize Be16 Be32
   Be64 BeSize) is instantiated textually by rs2v and its four bodies are regenerated
   (coq/Gen/Endian.v): to_native, PartialEq<old> for new, PartialEq<new> for old, From<old>.
   Each lemma has two parts:
     (1) WHICH std conversion the body applies (to_le / to_be / from_le / from_be, at which
         width) and how the comparison is built - for an arbitrary conversion function cv;
     (2) with the conversions' meaning on the little-endian host of the trusted base
         (std_cv: identity / swap_bytes) the body is the function of coq/Impl/Endian.v (C20). *)
From VM Require Import Prelude.MachInt Prelude.Rs2v Impl.Endian.
From VM Require Gen.Endian.

Definition std_cv (k : econv) (bytes v : N) : N :=
  match k with
  | to_le | from_le => v
  | to_be | from_be => swap_bytes (N.to_nat bytes) v
  end.
Definition ET (e : endian) (n : nat) : ety := {| e_end := e; e_size := n |}.

(* endian_type!(Le16) *)
Lemma geneq_Endian_Le16_to_native : forall stored,
  (forall cv, Gen.Endian.Le16_to_native stored cv = cv from_le 2 stored) /\
  Gen.Endian.Le16_to_native stored std_cv = e_to_native (ET LE 2) stored.
Proof. split; reflexivity. Qed.
Lemma geneq_Endian_Le16_eq_old : forall stored other,
  (forall cv, Gen.Endian.Le16_eq_old stored cv other = (stored =? cv to_le 2 other)) /\
  Gen.Endian.Le16_eq_old stored std_cv other = e_eq_new_old (ET LE 2) stored other.
Proof. split; reflexivity. Qed.
Lemma geneq_Endian_Le16_old_eq : forall self other_stored,
  (forall cv, Gen.Endian.Le16_old_eq self other_stored cv = (cv to_le 2 other_stored =? self)) /\
  Gen.Endian.Le16_old_eq self other_stored std_cv = e_eq_old_new (ET LE 2) self other_stored.
Proof. split; reflexivity. Qed.
Lemma geneq_Endian_Le16_from : forall v,
  (forall cv, Gen.Endian.Le16_from cv v = cv to_le 2 v) /\
  Gen.Endian.Le16_from std_cv v = e_from (ET LE 2) v.
Proof. split; reflexivity. Qed.

(* endian_type!(Le32) *)
Lemma geneq_Endian_Le32_to_native : forall stored,
  (forall cv, Gen.Endian.Le32_to_native stored cv = cv from_le 4 stored) /\
  Gen.Endian.Le32_to_native stored std_cv = e_to_native (ET LE 4) stored.
Proof. split; reflexivity. Qed.
Lemma geneq_Endian_Le32_eq_old : forall stored other,
  (forall cv, Gen.Endian.Le32_eq_old stored cv other = (stored =? cv to_le 4 other)) /\
  Gen.Endian.Le32_eq_old stored std_cv other = e_eq_new_old (ET LE 4) stored other.
Proof. split; reflexivity. Qed.
Lemma geneq_Endian_Le32_old_eq : forall self other_stored,
  (forall cv, Gen.Endian.Le32_old_eq self other_stored cv = (cv to_le 4 other_stored =? self)) /\
  Gen.Endian.Le32_old_eq self other_stored std_cv = e_eq_old_new (ET LE 4) self other_stored.
Proof. split; reflexivity. Qed.
Lemma geneq_Endian_Le32_from : forall v,
  (forall cv, Gen.Endian.Le32_from cv v = cv to_le 4 v) /\
  Gen.Endian.Le32_from std_cv v = e_from (ET LE 4) v.
Proof. split; reflexivity. Qed.

(* endian_type!(Le64) *)
Lemma geneq_Endian_Le64_to_native : forall stored,
  (forall cv, Gen.Endian.Le64_to_native stored cv = cv from_le 8 stored) /\
  Gen.Endian.Le64_to_native stored std_cv = e_to_native (ET LE 8) stored.
Proof. split; reflexivity. Qed.
Lemma geneq_Endian_Le64_eq_old : forall stored other,
  (forall cv, Gen.Endian.Le64_eq_old stored cv other = (stored =? cv to_le 8 other)) /\
  Gen.Endian.Le64_eq_old stored std_cv other = e_eq_new_old (ET LE 8) stored other.
Proof. split; reflexivity. Qed.
Lemma geneq_Endian_Le64_old_eq : forall self other_stored,
  (forall cv, Gen.Endian.Le64_old_eq self other_stored cv = (cv to_le 8 other_stored =? self)) /\
  Gen.Endian.Le64_old_eq self other_stored std_cv = e_eq_old_new (ET LE 8) self other_stored.
Proof. split; reflexivity. Qed.
Lemma geneq_Endian_Le64_from : forall v,
  (forall cv, Gen.Endian.Le64_from cv v = cv to_le 8 v) /\
  Gen.Endian.Le64_from std_cv v = e_from (ET LE 8) v.
Proof. split; reflexivity. Qed.

(* endian_type!(LeSize) *)
Lemma geneq_Endian_LeSize_to_native : forall stored,
  (forall cv, Gen.Endian.LeSize_to_native stored cv = cv from_le 8 stored) /\
  Gen.Endian.LeSize_to_native stored std_cv = e_to_native (ET LE 8) stored.
Proof. split; reflexivity. Qed.
Lemma geneq_Endian_LeSize_eq_old : forall stored other,
  (forall cv, Gen.Endian.LeSize_eq_old stored cv other = (stored =? cv to_le 8 other)) /\
  Gen.Endian.LeSize_eq_old stored std_cv other = e_eq_new_old (ET LE 8) stored other.
Proof. split; reflexivity. Qed.
Lemma geneq_Endian_LeSize_old_eq : forall self other_stored,
  (forall cv, Gen.Endian.LeSize_old_eq self other_stored cv = (cv to_le 8 other_stored =? self)) /\
  Gen.Endian.LeSize_old_eq self other_stored std_cv = e_eq_old_new (ET LE 8) self other_stored.
Proof. split; reflexivity. Qed.
Lemma geneq_Endian_LeSize_from : forall v,
  (forall cv, Gen.Endian.LeSize_from cv v = cv to_le 8 v) /\
  Gen.Endian.LeSize_from std_cv v = e_from (ET LE 8) v.
Proof. split; reflexivity. Qed.

(* endian_type!(Be16) *)
Lemma geneq_Endian_Be16_to_native : forall stored,
  (forall cv, Gen.Endian.Be16_to_native stored cv = cv from_be 2 stored) /\
  Gen.Endian.Be16_to_native stored std_cv = e_to_native (ET BE 2) stored.
Proof. split; reflexivity. Qed.
Lemma geneq_Endian_Be16_eq_old : forall stored other,
  (forall cv, Gen.Endian.Be16_eq_old stored cv other = (stored =? cv to_be 2 other)) /\
  Gen.Endian.Be16_eq_old stored std_cv other = e_eq_new_old (ET BE 2) stored other.
Proof. split; reflexivity. Qed.
Lemma geneq_Endian_Be16_old_eq : forall self other_stored,
  (forall cv, Gen.Endian.Be16_old_eq self other_stored cv = (cv to_be 2 other_stored =? self)) /\
  Gen.Endian.Be16_old_eq self other_stored std_cv = e_eq_old_new (ET BE 2) self other_stored.
Proof. split; reflexivity. Qed.
Lemma geneq_Endian_Be16_from : forall v,
  (forall cv, Gen.Endian.Be16_from cv v = cv to_be 2 v) /\
  Gen.Endian.Be16_from std_cv v = e_from (ET BE 2) v.
Proof. split; reflexivity. Qed.

(* endian_type!(Be32) *)
Lemma geneq_Endian_Be32_to_native : forall stored,
  (forall cv, Gen.Endian.Be32_to_native stored cv = cv from_be 4 stored) /\
  Gen.Endian.Be32_to_native stored std_cv = e_to_native (ET BE 4) stored.
Proof. split; reflexivity. Qed.
Lemma geneq_Endian_Be32_eq_old : forall stored other,
  (forall cv, Gen.Endian.Be32_eq_old stored cv other = (stored =? cv to_be 4 other)) /\
  Gen.Endian.Be32_eq_old stored std_cv other = e_eq_new_old (ET BE 4) stored other.
Proof. split; reflexivity. Qed.
Lemma geneq_Endian_Be32_old_eq : forall self other_stored,
  (forall cv, Gen.Endian.Be32_old_eq self other_stored cv = (cv to_be 4 other_stored =? self)) /\
  Gen.Endian.Be32_old_eq self other_stored std_cv = e_eq_old_new (ET BE 4) self other_stored.
Proof. split; reflexivity. Qed.
Lemma geneq_Endian_Be32_from : forall v,
  (forall cv, Gen.Endian.Be32_from cv v = cv to_be 4 v) /\
  Gen.Endian.Be32_from std_cv v = e_from (ET BE 4) v.
Proof. split; reflexivity. Qed.

(* endian_type!(Be64) *)
Lemma geneq_Endian_Be64_to_native : forall stored,
  (forall cv, Gen.Endian.Be64_to_native stored cv = cv from_be 8 stored) /\
  Gen.Endian.Be64_to_native stored std_cv = e_to_native (ET BE 8) stored.
Proof. split; reflexivity. Qed.
Lemma geneq_Endian_Be64_eq_old : forall stored other,
  (forall cv, Gen.Endian.Be64_eq_old stored cv other = (stored =? cv to_be 8 other)) /\
  Gen.Endian.Be64_eq_old stored std_cv other = e_eq_new_old (ET BE 8) stored other.
Proof. split; reflexivity. Qed.
Lemma geneq_Endian_Be64_old_eq : forall self other_stored,
  (forall cv, Gen.Endian.Be64_old_eq self other_stored cv = (cv to_be 8 other_stored =? self)) /\
  Gen.Endian.Be64_old_eq self other_stored std_cv = e_eq_old_new (ET BE 8) self other_stored.
Proof. split; reflexivity. Qed.
Lemma geneq_Endian_Be64_from : forall v,
  (forall cv, Gen.Endian.Be64_from cv v = cv to_be 8 v) /\
  Gen.Endian.Be64_from std_cv v = e_from (ET BE 8) v.
Proof. split; reflexivity. Qed.

(* endian_type!(BeSize) *)
Lemma geneq_Endian_BeSize_to_native : forall stored,
  (forall cv, Gen.Endian.BeSize_to_native stored cv = cv from_be 8 stored) /\
  Gen.Endian.BeSize_to_native stored std_cv = e_to_native (ET BE 8) stored.
Proof. split; reflexivity. Qed.
Lemma geneq_Endian_BeSize_eq_old : forall stored other,
  (forall cv, Gen.Endian.BeSize_eq_old stored cv other = (stored =? cv to_be 8 other)) /\
  Gen.Endian.BeSize_eq_old stored std_cv other = e_eq_new_old (ET BE 8) stored other.
Proof. split; reflexivity. Qed.
Lemma geneq_Endian_BeSize_old_eq : forall self other_stored,
  (forall cv, Gen.Endian.BeSize_old_eq self other_stored cv = (cv to_be 8 other_stored =? self)) /\
  Gen.Endian.BeSize_old_eq self other_stored std_cv = e_eq_old_new (ET BE 8) self other_stored.
Proof. split; reflexivity. Qed.
Lemma geneq_Endian_BeSize_from : forall v,
  (forall cv, Gen.Endian.BeSize_from cv v = cv to_be 8 v) /\
  Gen.Endian.BeSize_from std_cv v = e_from (ET BE 8) v.
Proof. split; reflexivity. Qed.
