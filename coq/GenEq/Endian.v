(* Static tie for src/endian.rs: every instance of endian_type! (Le16 Le32 Le64 LeSize Be16 Be32
   Be64 BeSize) is instantiated textually by rs2v and its four bodies are regenerated
   (coq/Gen/Endian.v): to_native, PartialEq<old> for new, PartialEq<new> for old, From<old>.
   What is checked is WHICH std conversion (to_le / to_be / from_le / from_be, and at which
   width) each body applies and how the comparison is built; the conversions themselves are the
   parameter cv, instantiated here with their meaning on the little-endian host of the trusted
   base (identity / swap_bytes), as in coq/Impl/Endian.v (C20). *)
From VM Require Import Prelude.MachInt Prelude.Rs2v Impl.Endian.
From VM Require Gen.Endian.

Definition std_cv (k : econv) (bytes v : N) : N :=
  match k with
  | to_le | from_le => v
  | to_be | from_be => swap_bytes (N.to_nat bytes) v
  end.
Definition ET (e : endian) (n : nat) : ety := {| e_end := e; e_size := n |}.

(* endian_type!(Le16) *)
Lemma geneq_Endian_Le16_to_native : forall stored,
  Gen.Endian.Le16_to_native stored std_cv = e_to_native (ET LE 2) stored.
Proof. reflexivity. Qed.
Lemma geneq_Endian_Le16_eq_old : forall stored other,
  Gen.Endian.Le16_eq_old stored std_cv other = e_eq_new_old (ET LE 2) stored other.
Proof. reflexivity. Qed.
Lemma geneq_Endian_Le16_old_eq : forall self other_stored,
  Gen.Endian.Le16_old_eq self other_stored std_cv = e_eq_old_new (ET LE 2) self other_stored.
Proof. reflexivity. Qed.
Lemma geneq_Endian_Le16_from : forall v, Gen.Endian.Le16_from std_cv v = e_from (ET LE 2) v.
Proof. reflexivity. Qed.

(* endian_type!(Le32) *)
Lemma geneq_Endian_Le32_to_native : forall stored,
  Gen.Endian.Le32_to_native stored std_cv = e_to_native (ET LE 4) stored.
Proof. reflexivity. Qed.
Lemma geneq_Endian_Le32_eq_old : forall stored other,
  Gen.Endian.Le32_eq_old stored std_cv other = e_eq_new_old (ET LE 4) stored other.
Proof. reflexivity. Qed.
Lemma geneq_Endian_Le32_old_eq : forall self other_stored,
  Gen.Endian.Le32_old_eq self other_stored std_cv = e_eq_old_new (ET LE 4) self other_stored.
Proof. reflexivity. Qed.
Lemma geneq_Endian_Le32_from : forall v, Gen.Endian.Le32_from std_cv v = e_from (ET LE 4) v.
Proof. reflexivity. Qed.

(* endian_type!(Le64) *)
Lemma geneq_Endian_Le64_to_native : forall stored,
  Gen.Endian.Le64_to_native stored std_cv = e_to_native (ET LE 8) stored.
Proof. reflexivity. Qed.
Lemma geneq_Endian_Le64_eq_old : forall stored other,
  Gen.Endian.Le64_eq_old stored std_cv other = e_eq_new_old (ET LE 8) stored other.
Proof. reflexivity. Qed.
Lemma geneq_Endian_Le64_old_eq : forall self other_stored,
  Gen.Endian.Le64_old_eq self other_stored std_cv = e_eq_old_new (ET LE 8) self other_stored.
Proof. reflexivity. Qed.
Lemma geneq_Endian_Le64_from : forall v, Gen.Endian.Le64_from std_cv v = e_from (ET LE 8) v.
Proof. reflexivity. Qed.

(* endian_type!(LeSize) *)
Lemma geneq_Endian_LeSize_to_native : forall stored,
  Gen.Endian.LeSize_to_native stored std_cv = e_to_native (ET LE 8) stored.
Proof. reflexivity. Qed.
Lemma geneq_Endian_LeSize_eq_old : forall stored other,
  Gen.Endian.LeSize_eq_old stored std_cv other = e_eq_new_old (ET LE 8) stored other.
Proof. reflexivity. Qed.
Lemma geneq_Endian_LeSize_old_eq : forall self other_stored,
  Gen.Endian.LeSize_old_eq self other_stored std_cv = e_eq_old_new (ET LE 8) self other_stored.
Proof. reflexivity. Qed.
Lemma geneq_Endian_LeSize_from : forall v, Gen.Endian.LeSize_from std_cv v = e_from (ET LE 8) v.
Proof. reflexivity. Qed.

(* endian_type!(Be16) *)
Lemma geneq_Endian_Be16_to_native : forall stored,
  Gen.Endian.Be16_to_native stored std_cv = e_to_native (ET BE 2) stored.
Proof. reflexivity. Qed.
Lemma geneq_Endian_Be16_eq_old : forall stored other,
  Gen.Endian.Be16_eq_old stored std_cv other = e_eq_new_old (ET BE 2) stored other.
Proof. reflexivity. Qed.
Lemma geneq_Endian_Be16_old_eq : forall self other_stored,
  Gen.Endian.Be16_old_eq self other_stored std_cv = e_eq_old_new (ET BE 2) self other_stored.
Proof. reflexivity. Qed.
Lemma geneq_Endian_Be16_from : forall v, Gen.Endian.Be16_from std_cv v = e_from (ET BE 2) v.
Proof. reflexivity. Qed.

(* endian_type!(Be32) *)
Lemma geneq_Endian_Be32_to_native : forall stored,
  Gen.Endian.Be32_to_native stored std_cv = e_to_native (ET BE 4) stored.
Proof. reflexivity. Qed.
Lemma geneq_Endian_Be32_eq_old : forall stored other,
  Gen.Endian.Be32_eq_old stored std_cv other = e_eq_new_old (ET BE 4) stored other.
Proof. reflexivity. Qed.
Lemma geneq_Endian_Be32_old_eq : forall self other_stored,
  Gen.Endian.Be32_old_eq self other_stored std_cv = e_eq_old_new (ET BE 4) self other_stored.
Proof. reflexivity. Qed.
Lemma geneq_Endian_Be32_from : forall v, Gen.Endian.Be32_from std_cv v = e_from (ET BE 4) v.
Proof. reflexivity. Qed.

(* endian_type!(Be64) *)
Lemma geneq_Endian_Be64_to_native : forall stored,
  Gen.Endian.Be64_to_native stored std_cv = e_to_native (ET BE 8) stored.
Proof. reflexivity. Qed.
Lemma geneq_Endian_Be64_eq_old : forall stored other,
  Gen.Endian.Be64_eq_old stored std_cv other = e_eq_new_old (ET BE 8) stored other.
Proof. reflexivity. Qed.
Lemma geneq_Endian_Be64_old_eq : forall self other_stored,
  Gen.Endian.Be64_old_eq self other_stored std_cv = e_eq_old_new (ET BE 8) self other_stored.
Proof. reflexivity. Qed.
Lemma geneq_Endian_Be64_from : forall v, Gen.Endian.Be64_from std_cv v = e_from (ET BE 8) v.
Proof. reflexivity. Qed.

(* endian_type!(BeSize) *)
Lemma geneq_Endian_BeSize_to_native : forall stored,
  Gen.Endian.BeSize_to_native stored std_cv = e_to_native (ET BE 8) stored.
Proof. reflexivity. Qed.
Lemma geneq_Endian_BeSize_eq_old : forall stored other,
  Gen.Endian.BeSize_eq_old stored std_cv other = e_eq_new_old (ET BE 8) stored other.
Proof. reflexivity. Qed.
Lemma geneq_Endian_BeSize_old_eq : forall self other_stored,
  Gen.Endian.BeSize_old_eq self other_stored std_cv = e_eq_old_new (ET BE 8) self other_stored.
Proof. reflexivity. Qed.
Lemma geneq_Endian_BeSize_from : forall v, Gen.Endian.BeSize_from std_cv v = e_from (ET BE 8) v.
Proof. reflexivity. Qed.
